#!/bin/sh
# Confirms a seeded change and files it under /verif/seeded/<name>/.
# usage: seed_intake.sh <name> <srcdir-with-SEED-files> <demo-file-in-src> <demo-dest-path-in-repo> "<demo go test args>" <property> "<checks...>" "<needs>"
set -u
NAME=$1; SRC=$2; DEMO=$3; DEST=$4; DEMOCMD=$5; PROP=$6; CHECKS=$7; NEEDS=$8
cd /verif
WT=/var/tmp/vf-seed-wt-$NAME
git -C /repo worktree remove --force $WT 2>/dev/null; rm -rf $WT
git -C /repo worktree add -q --detach $WT HEAD || exit 2
LOG=/var/tmp/seed-$NAME.log; : > $LOG
if ! git -C $WT apply $SRC/patch.diff; then echo "PATCH DOES NOT APPLY" | tee -a $LOG; exit 1; fi
echo "== existing tests with the change" >> $LOG
(cd $WT && go test -vet=off -count=1 ./cache ./config ./proxy/... ./tests ./utils/... 2>&1 | grep -E "^(ok|FAIL|---|panic)") >> $LOG 2>&1
TESTS_OK=yes; grep -qE "^(FAIL|---|panic)" $LOG && TESTS_OK=no
mkdir -p $(dirname $WT/$DEST); cp $SRC/$DEMO $WT/$DEST
echo "== demo with the change (must fail)" >> $LOG
(cd $WT && go test -vet=off -count=1 $DEMOCMD 2>&1 | tail -15) >> $LOG 2>&1
(cd $WT && go test -vet=off -count=1 $DEMOCMD >/dev/null 2>&1); WITH=$?
rm -f $WT/$DEST; git -C $WT apply -R $SRC/patch.diff; cp $SRC/$DEMO $WT/$DEST
echo "== demo without the change (must pass)" >> $LOG
(cd $WT && go test -vet=off -count=1 $DEMOCMD 2>&1 | tail -5) >> $LOG 2>&1
(cd $WT && go test -vet=off -count=1 $DEMOCMD >/dev/null 2>&1); WITHOUT=$?
rm -f $WT/$DEST; git -C $WT apply $SRC/patch.diff
echo "tests_ok=$TESTS_OK demo_with_change_exit=$WITH demo_without_change_exit=$WITHOUT" | tee -a $LOG
RES=""
if [ "$TESTS_OK" = yes ] && [ $WITH -ne 0 ] && [ $WITHOUT -eq 0 ]; then
  for c in $CHECKS; do
    VERIF_REPO=$WT VF_NO_EVIDENCE=1 ./vf check $c > /var/tmp/seed-$NAME-$c.out 2>&1; rc=$?
    first=$(grep -A1 '^VIOLATION' /var/tmp/seed-$NAME-$c.out | grep 'key:' | head -1 | sed 's/^ *key: //' | cut -c1-160)
    echo "check $c exit=$rc $first" | tee -a $LOG
    RES="$RES{\"check\":\"$c\",\"exit\":$rc,\"first_violation\":\"$(echo $first | sed 's/"/\\"/g')\"},"
  done
  mkdir -p seeded/$NAME
  cp $SRC/patch.diff seeded/$NAME/patch.diff; cp $SRC/$DEMO seeded/$NAME/$(basename $DEMO); cp $SRC/NOTES.md seeded/$NAME/NOTES.md 2>/dev/null
  python3 - "$NAME" "$PROP" "$CHECKS" "$NEEDS" "$DEST" "$DEMOCMD" "[${RES%,}]" <<'PY'
import json,sys
name,prop,checks,needs,dest,cmd,res=sys.argv[1:8]
meta={"property":prop,"checks":checks.split(),"needs_to_manifest":needs,"demonstration":{"place_at":dest,"run":"go test -vet=off -count=1 "+cmd},
 "confirmed":{"existing_tests_pass_with_change":True,"demo_fails_with_change":True,"demo_passes_without_change":True,"how":"seed_intake.sh in a scratch worktree of /repo HEAD"},
 "check_results":json.loads(res)}
json.dump(meta,open(f"/verif/seeded/{name}/meta.json","w"),indent=2)
PY
  echo "FILED seeded/$NAME" | tee -a $LOG
else
  echo "NOT CONFIRMED - not filed" | tee -a $LOG
fi
git -C /repo worktree remove --force $WT 2>/dev/null; rm -rf $WT
