#!/usr/bin/env python3
"""Every violation key prefix (Cxx/...) a harness file can emit must belong to a check that runs a
scenario registered in that file's package; otherwise the violation would be observed and dropped
(a check only reports keys of its own property). Exits 1 listing the orphans."""
import re,glob,os,subprocess,json,sys
root='/verif/engine/harness'
# scenarios registered per file and per package dir
reg={}; emits={}
for f in glob.glob(root+'/**/*_test.go',recursive=True):
    src=open(f).read()
    d=f
    for m in re.finditer(r'vrun\.Register\("([^"]+)"',src):
        reg.setdefault(d,set()).add(m.group(1))
    for m in re.finditer(r'"(C\d\d)/',src):
        emits.setdefault(d,set()).add(m.group(1))
    # keys built from a Prop parameter are owned by construction
# which scenarios does each check run (both tiers)?
out=subprocess.run(['/verif/vf','runs-json'],capture_output=True,text=True)
runs=json.loads(out.stdout)
bad=0
for d,props in sorted(emits.items()):
    scen=reg.get(d,set())
    if not scen:
        # a helper file: its keys can surface in any scenario of the package
        for f2,sc in reg.items():
            if os.path.dirname(f2)==os.path.dirname(d): scen=scen|sc
    for p in sorted(props):
        if not (scen & set(runs.get(p,[]))):
            print(f'ORPHAN: {os.path.relpath(d,root)} can emit {p}/... but check {p} runs none of {sorted(scen)}')
            bad+=1
print('violation keys: every emitted property prefix has an owner that runs the scenario' if not bad else f'{bad} orphan key prefixes')
sys.exit(1 if bad else 0)
