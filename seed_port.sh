#!/bin/sh
# Re-bases a seeded patch that no longer applies to /repo HEAD (after a fix: commit touched its context):
# applies it with reduced context in a scratch worktree, builds, and rewrites patch.diff from the result.
# usage: seed_port.sh <seed-name>
set -u
N=$1; D=/verif/seeded/$N; WT=/var/tmp/vf-port-$N
export GOFLAGS=-mod=mod GOPROXY=off GOSUMDB=off GOTOOLCHAIN=local
git -C /repo worktree remove --force $WT 2>/dev/null; rm -rf $WT
git -C /repo worktree add -q --detach $WT HEAD || exit 2
if git -C $WT apply --check $D/patch.diff 2>/dev/null; then echo "$N: applies as it is"; git -C /repo worktree remove --force $WT; exit 0; fi
ok=no
for c in 2 1 0; do
  if git -C $WT apply -C$c --recount --unidiff-zero $D/patch.diff 2>/dev/null || git -C $WT apply -C$c --recount $D/patch.diff 2>/dev/null; then ok=yes; break; fi
done
if [ $ok = no ] && (cd $WT && patch -p1 -F3 -s < $D/patch.diff >/dev/null 2>&1); then ok=yes; fi
if [ $ok = yes ] && (cd $WT && go1.26 build ./cache/... ./config/... ./proxy/... ./utils/... ./logging/... ./metrics/... ./webserver/api/... ./webserver/auth/... 2>&1 | grep -v "pattern frontend" | head -5 | grep -q .); then echo "$N: ported patch does not build"; ok=no; fi
if [ $ok = yes ]; then
  find $WT -name "*.orig" -delete; find $WT -name "*.rej" -delete
  cp $D/patch.diff $D/patch.orig.diff 2>/dev/null
  git -C $WT diff > $D/patch.diff
  python3 - "$D" <<'PY'
import json,sys,subprocess
d=sys.argv[1]; m=json.load(open(d+'/meta.json'))
h=subprocess.run(['git','-C','/repo','rev-parse','--short','HEAD'],capture_output=True,text=True).stdout.strip()
m['ported']=f"patch re-based onto /repo {h} (its context was touched by later fix: commits); the original is patch.orig.diff"
json.dump(m,open(d+'/meta.json','w'),indent=2)
PY
  echo "$N: ported"
else
  echo "$N: COULD NOT PORT"
fi
git -C /repo worktree remove --force $WT 2>/dev/null; rm -rf $WT
