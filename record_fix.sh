#!/bin/sh
# usage: record_fix.sh <mutant-name> <property> "<checks>" "<what failed>"   (run right after the fix: commit in /repo)
set -e
cd /verif
git -C /repo diff HEAD~1 HEAD -R > mutants/revert-fix-$1.patch
python3 - "$1" "$2" "$3" "$4" <<'PY'
import json,subprocess,sys
name,prop,checks,what=sys.argv[1:5]
p='/verif/mutants/index.json'
d=json.load(open(p)); d[f'revert-fix-{name}.patch']=checks.split(); json.dump(d,open(p,'w'),indent=1)
p='/verif/known_findings.json'
d=json.load(open(p))
h=subprocess.run(['git','-C','/repo','rev-parse','--short','HEAD'],capture_output=True,text=True).stdout.strip()
d['fixed'].append({"property":prop,"commit":h,"what":what})
json.dump(d,open(p,'w'),indent=1)
print('recorded',h)
PY
