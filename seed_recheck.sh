#!/bin/sh
# Re-runs checks against an already filed seeded change and updates its meta.json.
# usage: seed_recheck.sh <name> "<checks...>" [tier]
set -u
NAME=$1; CHECKS=$2; TIER=${3:-quick}
cd /verif
WT=/var/tmp/vf-seed-wt-$NAME
git -C /repo worktree remove --force $WT 2>/dev/null; rm -rf $WT
git -C /repo worktree add -q --detach $WT HEAD || exit 2
if ! git -C $WT apply /verif/seeded/$NAME/patch.diff; then echo "PATCH DOES NOT APPLY"; git -C /repo worktree remove --force $WT; exit 1; fi
RES=""
for c in $CHECKS; do
  VERIF_REPO=$WT VF_NO_EVIDENCE=1 ./vf check $c $TIER > /var/tmp/seed-$NAME-$c.out 2>&1; rc=$?
  first=$(grep -A1 '^VIOLATION' /var/tmp/seed-$NAME-$c.out | grep 'key:' | head -1 | sed 's/^ *key: //' | cut -c1-160)
  echo "$NAME: check $c exit=$rc $first"
  RES="$RES{\"check\":\"$c\",\"exit\":$rc,\"first_violation\":\"$(echo $first | sed 's/"/\\"/g')\"},"
done
python3 - "$NAME" "$CHECKS" "[${RES%,}]" <<'PY'
import json,sys
name,checks,res=sys.argv[1:4]
p=f"/verif/seeded/{name}/meta.json"
m=json.load(open(p))
old=m.get("check_results",[])
new=json.loads(res)
if any(r["exit"]==0 for r in old) and "first_results_before_strengthening" not in m:
    m["first_results_before_strengthening"]=old
m["check_results"]=new
m["checks"]=checks.split()
json.dump(m,open(p,"w"),indent=2)
PY
git -C /repo worktree remove --force $WT 2>/dev/null; rm -rf $WT
