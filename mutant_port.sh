#!/bin/sh
# Re-bases a mutant patch (reverse of a fix) that no longer applies to /repo HEAD. usage: mutant_port.sh <file>
set -u
P=$1; N=$(basename $P .patch); WT=/var/tmp/vf-mport-$N
export GOFLAGS=-mod=mod GOPROXY=off GOSUMDB=off GOTOOLCHAIN=local
git -C /repo worktree remove --force $WT 2>/dev/null; rm -rf $WT
git -C /repo worktree add -q --detach $WT HEAD || exit 2
ok=no
for c in 2 1; do
  if git -C $WT apply -C$c --recount /verif/$P 2>/dev/null; then ok=yes; break; fi
done
if [ $ok = no ] && (cd $WT && patch -p1 -F3 -s < /verif/$P >/dev/null 2>&1); then ok=yes; fi
if [ $ok = yes ]; then
  find $WT -name "*.orig" -delete; find $WT -name "*.rej" -delete
  if (cd $WT && go1.26 build ./cache/... ./config/... ./proxy/... ./utils/... ./logging/... ./metrics/... ./webserver/api/... ./webserver/auth/... 2>&1 | grep -v "pattern frontend" | grep -q .); then echo "$N: ported patch does not build"; ok=no; fi
fi
if [ $ok = yes ]; then git -C $WT diff > /verif/$P; echo "$N: ported"; else echo "$N: COULD NOT PORT"; fi
git -C /repo worktree remove --force $WT 2>/dev/null; rm -rf $WT
