#!/bin/sh
# Runs reservoir's own test suite (the 55 pinned tests live in these packages) on /repo's working tree.
export GOFLAGS=-mod=mod GOPROXY=off GOSUMDB=off GOTOOLCHAIN=local
GO=go1.26; command -v $GO >/dev/null 2>&1 || GO=go
cd ${VERIF_REPO:-/repo} && $GO build ./... 2>&1 | grep -v "pattern frontend" | head; $GO test -vet=off -count=1 ./cache ./config ./proxy/... ./tests ./utils/... 2>&1 | grep -E "^(ok|FAIL|---|panic)"
