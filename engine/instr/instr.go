// Package instr rewrites the current /repo working tree into a `go build -overlay`
// in which every source of nondeterminism is behind a seam owned by the explorer
// (rules R1–R8 of DESIGN.md §2.1). Rewriting is done by splicing text into the
// original source at AST positions, never by re-printing, and never adds or removes
// a line, so panics, compiler errors and race reports keep their /repo positions.
package instr

import (
	"bytes"
	"encoding/json"
	"fmt"
	"go/ast"
	"go/importer"
	"go/parser"
	"go/token"
	"go/types"
	"io"
	"os"
	"os/exec"
	"path/filepath"
	"sort"
	"strings"
)

const shimRoot = "reservoir/zzverif/"

type listPkg struct {
	ImportPath   string
	Dir          string
	Name         string
	GoFiles      []string
	CgoFiles     []string
	TestGoFiles  []string
	XTestGoFiles []string
	Export       string
	Standard     bool
	DepOnly      bool
	Module       *struct{ Path string }
	Error        *struct{ Err string }
	Incomplete   bool
}

type Result struct {
	// ImportRewrite maps an import path outside the module to the virtual copy
	// (inside the module) that the instrumented build uses instead. Files below
	// GOMODCACHE cannot be overlaid, so an instrumented copy is added as a package
	// of the main module and the importers are pointed at it.
	ImportRewrite map[string]string
	Overlay   map[string]string
	Warnings  []string
	Rewrites  map[string]int // rule -> count
	Files     int
	MapRanges []string
}

type Options struct {
	RepoDir    string
	OutDir     string
	ShimDir    string
	HarnessDir string
	GoCmd      string
	Env        []string
	// ExtraPkgs are import paths outside the main module that are rewritten too.
	ExtraPkgs []string
}

type edit struct {
	pos, end int // byte offsets in the original file; pos==end is an insertion
	text     string
	seq      int
	closer   bool // insertion that closes a wrapper opened earlier in the text
}

type fileRW struct {
	src   []byte
	edits []edit
	fset  *token.FileSet
	file  *token.File
	seq   int
}

func (f *fileRW) off(p token.Pos) int { return f.file.Offset(p) }

// insert adds an opening insertion (wrapper prefix): at equal offsets the outermost
// (registered last, because the walk is post-order) comes first.
func (f *fileRW) insert(p token.Pos, text string) {
	f.seq++
	o := f.off(p)
	f.edits = append(f.edits, edit{o, o, text, f.seq, false})
}

// insertClose adds a closing insertion (wrapper suffix): innermost first.
func (f *fileRW) insertClose(p token.Pos, text string) {
	f.seq++
	o := f.off(p)
	f.edits = append(f.edits, edit{o, o, text, f.seq, true})
}

func (f *fileRW) replace(p, e token.Pos, text string) {
	f.seq++
	po, eo := f.off(p), f.off(e)
	// keep the line count
	nl := bytes.Count(f.src[po:eo], []byte("\n"))
	text += strings.Repeat("\n", nl-strings.Count(text, "\n"))
	f.edits = append(f.edits, edit{po, eo, text, f.seq, false})
}

// render returns the text of [p,e) with the registered edits inside that span applied,
// and removes those edits (they are consumed by an enclosing rewrite).
func (f *fileRW) render(p, e token.Pos) string {
	po, eo := f.off(p), f.off(e)
	var inner, rest []edit
	for _, ed := range f.edits {
		if ed.pos >= po && ed.end <= eo {
			inner = append(inner, ed)
		} else {
			rest = append(rest, ed)
		}
	}
	f.edits = rest
	return string(apply(f.src[po:eo], inner, po))
}

// peek is render without consuming.
func (f *fileRW) peek(p, e token.Pos) string {
	po, eo := f.off(p), f.off(e)
	var inner []edit
	for _, ed := range f.edits {
		if ed.pos >= po && ed.end <= eo {
			inner = append(inner, ed)
		}
	}
	return string(apply(f.src[po:eo], inner, po))
}

func apply(src []byte, edits []edit, base int) []byte {
	sort.SliceStable(edits, func(i, j int) bool {
		if edits[i].pos != edits[j].pos {
			return edits[i].pos < edits[j].pos
		}
		// at the same offset: closers (innermost first), then openers (outermost first),
		// then a replacement starting there.
		rank := func(e edit) int {
			switch {
			case e.pos == e.end && e.closer:
				return 0
			case e.pos == e.end:
				return 1
			}
			return 2
		}
		ri, rj := rank(edits[i]), rank(edits[j])
		if ri != rj {
			return ri < rj
		}
		if ri == 1 {
			return edits[i].seq > edits[j].seq
		}
		return edits[i].seq < edits[j].seq
	})
	var out bytes.Buffer
	cur := base
	for _, ed := range edits {
		if ed.pos < cur {
			panic(fmt.Sprintf("instr: overlapping edits at offset %d (%q)", ed.pos, ed.text))
		}
		out.Write(src[cur-base : ed.pos-base])
		out.WriteString(ed.text)
		cur = ed.end
	}
	out.Write(src[cur-base:])
	return out.Bytes()
}

var syncNames = map[string]bool{"Mutex": true, "RWMutex": true, "WaitGroup": true, "Once": true, "Locker": true}
var timeNames = map[string]bool{"Now": true, "Since": true, "Until": true, "Sleep": true, "NewTicker": true, "Ticker": true, "NewTimer": true, "Timer": true, "After": true, "AfterFunc": true, "Tick": true}
var osNames = map[string]bool{"Create": true, "Open": true, "OpenFile": true, "Remove": true, "RemoveAll": true, "Stat": true, "MkdirAll": true, "ReadFile": true, "WriteFile": true, "Rename": true, "CreateTemp": true, "File": true}

func run(opts Options, dir string, args ...string) ([]byte, error) {
	cmd := exec.Command(opts.GoCmd, args...)
	cmd.Dir = dir
	cmd.Env = append(os.Environ(), opts.Env...)
	var stderr bytes.Buffer
	cmd.Stderr = &stderr
	out, err := cmd.Output()
	if err != nil {
		return out, fmt.Errorf("%s %s: %v\n%s", opts.GoCmd, strings.Join(args, " "), err, stderr.String())
	}
	return out, nil
}

// Instrument builds the overlay.
func Instrument(opts Options) (*Result, error) {
	res := &Result{Overlay: map[string]string{}, Rewrites: map[string]int{}, ImportRewrite: map[string]string{}}
	for _, e := range opts.ExtraPkgs {
		res.ImportRewrite[e] = shimRoot + "x" + filepath.Base(e)
	}
	if err := os.MkdirAll(opts.OutDir, 0o755); err != nil {
		return nil, err
	}
	// --- stage 1: stubs + shim packages + harness files
	cspStub := filepath.Join(opts.OutDir, "stub_csp_header.go")
	os.WriteFile(cspStub, []byte("package csp\n\n// Stub for the generated constant this checkout lacks (cspgen needs the frontend build).\nconst Header = \"default-src 'self'\"\n"), 0o644)
	cspDir := filepath.Join(opts.RepoDir, "webserver/dashboard/csp")
	if ents, _ := filepath.Glob(filepath.Join(cspDir, "*.go")); len(ents) <= 1 {
		res.Overlay[filepath.Join(cspDir, "zz_verif_header_stub.go")] = cspStub
	}
	// The dashboard embeds the frontend build, which this checkout lacks (go:embed fails to compile
	// without it, and with it package main). When it is missing, the file is replaced by a stub with
	// the same exported API and a one-page in-memory "build".
	dashDir := filepath.Join(opts.RepoDir, "webserver/dashboard")
	if ents, _ := filepath.Glob(filepath.Join(dashDir, "frontend/build/*")); len(ents) == 0 {
		dashStub := filepath.Join(opts.OutDir, "stub_dashboard.go")
		os.WriteFile(dashStub, []byte(dashboardStub), 0o644)
		res.Overlay[filepath.Join(dashDir, "dashboard.go")] = dashStub
	}
	shimPkgs, _ := os.ReadDir(opts.ShimDir)
	for _, sp := range shimPkgs {
		if !sp.IsDir() {
			continue
		}
		files, _ := filepath.Glob(filepath.Join(opts.ShimDir, sp.Name(), "*.go"))
		for _, f := range files {
			res.Overlay[filepath.Join(opts.RepoDir, "zzverif", sp.Name(), filepath.Base(f))] = f
		}
	}
	stage1 := filepath.Join(opts.OutDir, "overlay_stage1.json")
	if err := writeOverlay(stage1, res.Overlay); err != nil {
		return nil, err
	}
	// --- stage 2: list packages with export data
	args := []string{"list", "-e", "-json=ImportPath,Dir,Name,GoFiles,CgoFiles,TestGoFiles,XTestGoFiles,Export,Standard,DepOnly,Module,Error,Incomplete", "-deps", "-export", "-overlay", stage1, "./..."}
	args = append(args, opts.ExtraPkgs...)
	out, err := run(opts, opts.RepoDir, args...)
	if err != nil {
		return nil, err
	}
	var pkgs []*listPkg
	dec := json.NewDecoder(bytes.NewReader(out))
	for {
		var p listPkg
		if err := dec.Decode(&p); err == io.EOF {
			break
		} else if err != nil {
			return nil, err
		}
		pkgs = append(pkgs, &p)
	}
	exports := map[string]string{}
	for _, p := range pkgs {
		if p.Export != "" {
			exports[p.ImportPath] = p.Export
		}
	}
	extra := map[string]bool{}
	for _, e := range opts.ExtraPkgs {
		extra[e] = true
	}
	fset := token.NewFileSet()
	imp := importer.ForCompiler(fset, "gc", func(path string) (io.ReadCloser, error) {
		f, ok := exports[path]
		if !ok {
			return nil, fmt.Errorf("no export data for %q", path)
		}
		return os.Open(f)
	})
	for _, p := range pkgs {
		inModule := p.Module != nil && p.Module.Path == "reservoir" && !p.Standard
		if !(inModule || extra[p.ImportPath]) {
			continue
		}
		if strings.HasPrefix(p.ImportPath, shimRoot) {
			continue
		}
		if p.Error != nil && len(p.GoFiles) == 0 {
			res.Warnings = append(res.Warnings, fmt.Sprintf("package %s: %s", p.ImportPath, p.Error.Err))
			continue
		}
		if len(p.CgoFiles) > 0 {
			res.Warnings = append(res.Warnings, fmt.Sprintf("package %s has cgo files; not rewritten", p.ImportPath))
			continue
		}
		if err := rewritePackage(opts, res, fset, imp, p); err != nil {
			return nil, fmt.Errorf("package %s: %v", p.ImportPath, err)
		}
		// neutralise the package's own tests: they are written against the real sync/time types.
		if inModule {
			for _, tf := range p.TestGoFiles {
				stub := filepath.Join(opts.OutDir, "stubs", p.ImportPath, tf)
				os.MkdirAll(filepath.Dir(stub), 0o755)
				os.WriteFile(stub, []byte("package "+p.Name+"\n"), 0o644)
				res.Overlay[filepath.Join(p.Dir, tf)] = stub
			}
			for _, tf := range p.XTestGoFiles {
				stub := filepath.Join(opts.OutDir, "stubs", p.ImportPath, tf)
				os.MkdirAll(filepath.Dir(stub), 0o755)
				os.WriteFile(stub, []byte("package "+p.Name+"_test\n"), 0o644)
				res.Overlay[filepath.Join(p.Dir, tf)] = stub
			}
		}
	}
	// --- harness files (internal tests of the package they drive)
	if opts.HarnessDir != "" {
		filepath.Walk(opts.HarnessDir, func(path string, info os.FileInfo, err error) error {
			if err != nil || info.IsDir() || !strings.HasSuffix(path, ".go") {
				return nil
			}
			rel, _ := filepath.Rel(opts.HarnessDir, path)
			dir, base := filepath.Split(rel)
			res.Overlay[filepath.Join(opts.RepoDir, dir, "zz_verif_"+base)] = path
			return nil
		})
	}
	return res, writeOverlay(filepath.Join(opts.OutDir, "overlay.json"), res.Overlay)
}

func writeOverlay(path string, m map[string]string) error {
	b, _ := json.MarshalIndent(map[string]any{"Replace": m}, "", " ")
	return os.WriteFile(path, b, 0o644)
}

func rewritePackage(opts Options, res *Result, fset *token.FileSet, imp types.Importer, p *listPkg) error {
	var files []*ast.File
	var paths []string
	for _, gf := range p.GoFiles {
		path := filepath.Join(p.Dir, gf)
		if _, stubbed := res.Overlay[path]; stubbed {
			continue // a file we injected ourselves
		}
		f, err := parser.ParseFile(fset, path, nil, parser.ParseComments|parser.SkipObjectResolution)
		if err != nil {
			return err
		}
		files = append(files, f)
		paths = append(paths, path)
	}
	info := &types.Info{
		Types: map[ast.Expr]types.TypeAndValue{},
		Uses:  map[*ast.Ident]types.Object{},
		Defs:  map[*ast.Ident]types.Object{},
	}
	var terrs []string
	conf := types.Config{Importer: imp, Error: func(err error) { terrs = append(terrs, err.Error()) }}
	conf.Check(p.ImportPath, fset, files, info)
	if len(terrs) > 0 {
		// A tree that does not type-check does not build either; let the compiler say so.
		res.Warnings = append(res.Warnings, fmt.Sprintf("type errors in %s: %s", p.ImportPath, strings.Join(terrs, "; ")))
	}
	for i, f := range files {
		src, err := os.ReadFile(paths[i])
		if err != nil {
			return err
		}
		rw := &fileRW{src: src, fset: fset, file: fset.File(f.Pos())}
		n := rewriteFile(res, rw, f, info, p)
		if _, virt := res.ImportRewrite[p.ImportPath]; n == 0 && !virt {
			continue
		}
		out := apply(rw.src, rw.edits, 0)
		dst := filepath.Join(opts.OutDir, "src", p.ImportPath, filepath.Base(paths[i]))
		os.MkdirAll(filepath.Dir(dst), 0o755)
		if err := os.WriteFile(dst, out, 0o644); err != nil {
			return err
		}
		if virt, ok := res.ImportRewrite[p.ImportPath]; ok {
			res.Overlay[filepath.Join(opts.RepoDir, strings.TrimPrefix(virt, "reservoir/"), filepath.Base(paths[i]))] = dst
		} else {
			res.Overlay[paths[i]] = dst
		}
		res.Files++
	}
	return nil
}

func pkgOf(info *types.Info, e ast.Expr) string {
	id, ok := e.(*ast.Ident)
	if !ok {
		return ""
	}
	if pn, ok := info.Uses[id].(*types.PkgName); ok {
		return pn.Imported().Path()
	}
	return ""
}

func isChan(info *types.Info, e ast.Expr) bool {
	tv, ok := info.Types[e]
	if !ok || tv.Type == nil {
		return false
	}
	_, ok = tv.Type.Underlying().(*types.Chan)
	return ok
}

func isMap(info *types.Info, e ast.Expr) bool {
	tv, ok := info.Types[e]
	if !ok || tv.Type == nil {
		return false
	}
	_, ok = tv.Type.Underlying().(*types.Map)
	return ok
}

// R9: slow crypto calls get a scheduling point in front (see shim/vcrypto).
var cryptoSel = map[string]string{
	"crypto/rand.Int":               "RandInt",
	"crypto/rand.Read":              "RandRead",
	"crypto/x509.CreateCertificate": "X509CreateCertificate",
	"crypto/ecdsa.GenerateKey":      "EcdsaGenerateKey",
}
var cryptoPaths = map[string]bool{"crypto/rand": true, "crypto/x509": true, "crypto/ecdsa": true}

func rewriteFile(res *Result, rw *fileRW, f *ast.File, info *types.Info, p *listPkg) int {
	count := 0
	need := map[string]bool{}
	hit := func(rule string) { res.Rewrites[rule]++; count++ }
	// uses of the sync/time/os package names that stay
	remaining := map[string]int{}
	pos := func(n ast.Node) string { return rw.fset.Position(n.Pos()).String() }

	var stack []ast.Node
	ast.Inspect(f, func(n ast.Node) bool {
		if n != nil {
			stack = append(stack, n)
			return true
		}
		n = stack[len(stack)-1]
		stack = stack[:len(stack)-1]
		var parent ast.Node
		if len(stack) > 0 {
			parent = stack[len(stack)-1]
		}
		switch x := n.(type) {
		case *ast.SelectorExpr:
			path := pkgOf(info, x.X)
			name := x.Sel.Name
			switch {
			case path == "sync" && syncNames[name]:
				rw.replace(x.X.Pos(), x.X.End(), "vsync")
				need["vsync"] = true
				hit("R1 sync->vsync")
			case path == "time" && timeNames[name]:
				rw.replace(x.X.Pos(), x.X.End(), "vtime")
				need["vtime"] = true
				hit("R5 time->vtime")
			case path == "os" && osNames[name]:
				rw.replace(x.X.Pos(), x.X.End(), "vos")
				need["vos"] = true
				hit("R6 os->vos")
			case cryptoSel[path+"."+name] != "":
				rw.replace(x.Pos(), x.End(), "vcrypto."+cryptoSel[path+"."+name])
				need["vcrypto"] = true
				hit("R9 slow crypto call -> vcrypto (yield)")
			case cryptoPaths[path]:
				remaining[path]++
			case path == "sync" || path == "time" || path == "os":
				remaining[path]++
				if path == "sync" && (name == "Cond" || name == "Map" || name == "NewCond") {
					res.Warnings = append(res.Warnings, fmt.Sprintf("%s: sync.%s is not modelled by the scheduler", pos(x), name))
				}
			}
		case *ast.GoStmt:
			call := x.Call
			isBuiltin := false
			if id, ok := call.Fun.(*ast.Ident); ok {
				_, isBuiltin = info.Uses[id].(*types.Builtin)
			}
			if _, ok := call.Fun.(*ast.FuncLit); ok && len(call.Args) == 0 {
				rw.replace(x.Go, call.Pos(), "vsched.Go(")
				rw.replace(call.Lparen, call.End(), ")")
			} else if isBuiltin {
				rw.replace(x.Go, call.Pos(), "vsched.Go(func() { ")
				rw.insertClose(call.End(), " })")
			} else {
				// evaluate the function value and the arguments now, as `go` does
				var pre, args []string
				pre = append(pre, "_vf := "+rw.render(call.Fun.Pos(), call.Fun.End()))
				for i, a := range call.Args {
					txt := rw.render(a.Pos(), a.End())
					if tv, ok := info.Types[a]; ok && tv.Value != nil {
						args = append(args, txt)
						continue
					}
					v := fmt.Sprintf("_va%d", i)
					pre = append(pre, v+" := "+txt)
					if call.Ellipsis.IsValid() && i == len(call.Args)-1 {
						v += "..."
					}
					args = append(args, v)
				}
				rw.replace(x.Pos(), x.End(), "{ "+strings.Join(pre, "; ")+"; vsched.Go(func() { _vf("+strings.Join(args, ", ")+") }) }")
			}
			need["vsched"] = true
			hit("R2 go->vsched.Go")
		case *ast.SendStmt:
			if cc, inComm := parent.(*ast.CommClause); inComm && cc.Comm == ast.Stmt(x) {
				break
			}
			ch := rw.peek(x.Chan.Pos(), x.Chan.End())
			rw.insert(x.Pos(), "vsched.Send("+ch+", func() { ")
			rw.insertClose(x.End(), " })")
			need["vsched"] = true
			hit("R3 send")
		case *ast.UnaryExpr:
			if x.Op != token.ARROW {
				break
			}
			if inCommHeader(stack, x) {
				break
			}
			// comma-ok form?
			two := false
			switch pp := parent.(type) {
			case *ast.AssignStmt:
				two = len(pp.Lhs) == 2 && len(pp.Rhs) == 1 && pp.Rhs[0] == ast.Expr(x)
			case *ast.ValueSpec:
				two = len(pp.Names) == 2 && len(pp.Values) == 1 && pp.Values[0] == ast.Expr(x)
			}
			fn := "vsched.Recv("
			if two {
				fn = "vsched.Recv2("
			}
			rw.replace(x.OpPos, x.X.Pos(), fn)
			rw.insertClose(x.X.End(), ")")
			need["vsched"] = true
			hit("R3 recv")
		case *ast.CallExpr:
			if id, ok := x.Fun.(*ast.Ident); ok && id.Name == "close" && len(x.Args) == 1 {
				if _, isBuiltin := info.Uses[id].(*types.Builtin); isBuiltin {
					ch := rw.peek(x.Args[0].Pos(), x.Args[0].End())
					rw.insert(x.Pos(), "vsched.Close("+ch+", func() { ")
					rw.insertClose(x.End(), " })")
					need["vsched"] = true
					hit("R3 close")
				}
			}
		case *ast.RangeStmt:
			switch {
			case isChan(info, x.X):
				ch := rw.render(x.X.Pos(), x.X.End())
				var hdr string
				tok := ":="
				if x.Tok == token.ASSIGN {
					tok = "="
				}
				if x.Key == nil {
					hdr = "for { if _, _vok := vsched.Recv2(" + ch + "); !_vok { break }; "
				} else if x.Tok == token.ASSIGN {
					hdr = "for { var _vok bool; " + rw.render(x.Key.Pos(), x.Key.End()) + ", _vok " + tok + " vsched.Recv2(" + ch + "); if !_vok { break }; "
				} else {
					hdr = "for { " + rw.render(x.Key.Pos(), x.Key.End()) + ", _vok := vsched.Recv2(" + ch + "); if !_vok { break }; "
				}
				rw.replace(x.For, x.Body.Lbrace+1, hdr)
				need["vsched"] = true
				hit("R3 range-chan")
			case isMap(info, x.X):
				rw.insert(x.X.Pos(), "vsched.MapOrder(")
				rw.insertClose(x.X.End(), ")")
				need["vsched"] = true
				res.MapRanges = append(res.MapRanges, pos(x))
				hit("R7 range-map")
			}
		case *ast.SelectStmt:
			var cases []string
			hasDefault := false
			idx := 0
			for _, st := range x.Body.List {
				cc := st.(*ast.CommClause)
				if cc.Comm == nil {
					hasDefault = true // stays the switch's default clause (keeps the statement terminating if it was)
					continue
				}
				hdr := fmt.Sprintf("case %d:", idx)
				switch c := cc.Comm.(type) {
				case *ast.SendStmt:
					cases = append(cases, "vsched.SendCase("+rw.render(c.Chan.Pos(), c.Chan.End())+", "+rw.render(c.Value.Pos(), c.Value.End())+")")
				case *ast.ExprStmt:
					u := c.X.(*ast.UnaryExpr)
					cases = append(cases, "vsched.RecvCase("+rw.render(u.X.Pos(), u.X.End())+")")
				case *ast.AssignStmt:
					u := c.Rhs[0].(*ast.UnaryExpr)
					ch := rw.render(u.X.Pos(), u.X.End())
					cases = append(cases, "vsched.RecvCase("+ch+")")
					var lhs []string
					for _, l := range c.Lhs {
						lhs = append(lhs, rw.render(l.Pos(), l.End()))
					}
					got := "vsched.Got("
					if len(lhs) == 2 {
						got = "vsched.Got2("
					}
					hdr += " " + strings.Join(lhs, ", ") + " " + c.Tok.String() + " " + got + ch + ", _vs);"
				}
				rw.replace(cc.Case, cc.Colon+1, hdr)
				idx++
			}
			head := fmt.Sprintf("switch _vs := vsched.Select(%v", hasDefault)
			for _, c := range cases {
				head += ", " + c
			}
			head += "); _vs.Idx {"
			rw.replace(x.Select, x.Body.Lbrace+1, head)
			if !hasDefault {
				// a select without default never falls through; give the switch a default clause
				// so that it is a terminating statement whenever the select was
				rw.insert(x.Body.Rbrace, "default: panic(vsched.SelectPanic(_vs)); ")
			}
			need["vsched"] = true
			hit("R3 select")
		case *ast.FuncDecl:
			if p.ImportPath == "reservoir/utils/atomics" && x.Recv != nil && x.Body != nil && len(x.Recv.List) == 1 && len(x.Recv.List[0].Names) == 1 {
				recv := x.Recv.List[0]
				if _, isPtr := recv.Type.(*ast.StarExpr); !isPtr {
					break
				}
				if strings.HasSuffix(x.Name.Name, "JSON") || x.Name.Name == "String" {
					break
				}
				field := atomicsField(info, recv)
				if field == "" {
					break
				}
				rname := recv.Names[0].Name
				// only methods that touch the atomic itself are points (Increment calls Add, ...)
				touches := false
				ast.Inspect(x.Body, func(m ast.Node) bool {
					if se, ok := m.(*ast.SelectorExpr); ok && se.Sel.Name == field {
						if id, ok := se.X.(*ast.Ident); ok && id.Name == rname {
							touches = true
						}
					}
					return true
				})
				if !touches {
					break
				}
				tname := typeName(recv.Type)
				rw.insert(x.Body.Lbrace+1, fmt.Sprintf(" vsched.AtomicPoint(uintptr(unsafe.Pointer(%s.%s)), \"%s.%s\");", rname, field, tname, x.Name.Name))
				need["vsched"] = true
				need["unsafe"] = true
				hit("R4 atomics point")
			}
			if p.ImportPath == "reservoir/utils/httplistener" && x.Name.Name == "New" && x.Recv == nil && x.Body != nil && len(x.Type.Params.List) == 2 {
				a := x.Type.Params.List[0].Names[0].Name
				h := x.Type.Params.List[1].Names[0].Name
				rw.insert(x.Body.Lbrace+1, fmt.Sprintf(" vsched.CaptureHandler(%s, %s);", a, h))
				need["vsched"] = true
				hit("R8 capture listener handler")
			}
		}
		return true
	})
	for _, im := range f.Imports {
		path := strings.Trim(im.Path.Value, `"`)
		if np, ok := res.ImportRewrite[path]; ok {
			rw.replace(im.Path.Pos(), im.Path.End(), `"`+np+`"`)
			hit("import " + path + " -> instrumented copy")
		}
	}
	if count == 0 {
		return 0
	}
	// imports: add the shim imports on the package-clause line; blank the originals that lost all uses.
	var add []string
	for _, name := range []string{"vsched", "vsync", "vtime", "vos", "vcrypto"} {
		if need[name] {
			add = append(add, fmt.Sprintf("import %s \"%s%s\"", name, shimRoot, name))
		}
	}
	if need["unsafe"] {
		has := false
		for _, im := range f.Imports {
			if im.Path.Value == `"unsafe"` {
				has = true
			}
		}
		if !has {
			add = append(add, `import "unsafe"`)
		}
	}
	if len(add) > 0 {
		rw.insert(f.Name.End(), "; "+strings.Join(add, "; "))
	}
	for _, im := range f.Imports {
		path := strings.Trim(im.Path.Value, `"`)
		if path != "sync" && path != "time" && path != "os" && !cryptoPaths[path] {
			continue
		}
		if cryptoPaths[path] && !need["vcrypto"] {
			continue
		}
		if im.Name != nil {
			continue // renamed or blank import: leave it
		}
		if remaining[path] == 0 && !usedOtherwise(f, info, path) {
			rw.insert(im.Path.Pos(), "_ ")
		}
	}
	return count
}

// usedOtherwise reports whether the package is referenced through anything other
// than a selector we looked at (it cannot be: every use of a package name is a selector).
func usedOtherwise(f *ast.File, info *types.Info, path string) bool { return false }

func inCommHeader(stack []ast.Node, u *ast.UnaryExpr) bool {
	// stack: ... CommClause, (ExprStmt | AssignStmt), [UnaryExpr popped]
	for i := len(stack) - 1; i >= 0 && i >= len(stack)-3; i-- {
		if cc, ok := stack[i].(*ast.CommClause); ok {
			switch c := cc.Comm.(type) {
			case *ast.ExprStmt:
				return c.X == ast.Expr(u)
			case *ast.AssignStmt:
				return len(c.Rhs) == 1 && c.Rhs[0] == ast.Expr(u)
			}
			return false
		}
	}
	return false
}

func typeName(e ast.Expr) string {
	switch t := e.(type) {
	case *ast.StarExpr:
		return typeName(t.X)
	case *ast.Ident:
		return t.Name
	case *ast.IndexExpr:
		return typeName(t.X)
	case *ast.IndexListExpr:
		return typeName(t.X)
	}
	return "?"
}

func atomicsField(info *types.Info, recv *ast.Field) string {
	obj := info.Defs[recv.Names[0]]
	if obj == nil {
		return ""
	}
	t := obj.Type()
	if pt, ok := t.(*types.Pointer); ok {
		t = pt.Elem()
	}
	st, ok := t.Underlying().(*types.Struct)
	if !ok || st.NumFields() == 0 {
		return ""
	}
	f := st.Field(0)
	if _, ok := f.Type().(*types.Pointer); !ok {
		return ""
	}
	return f.Name()
}

const dashboardStub = `package dashboard

// Stub for a checkout without the frontend build (see instr.go). Same exported API as dashboard.go.

import (
	"errors"
	"net/http"
	"reservoir/config"
)

var ErrFrontendNotFound = errors.New("frontend files not found")

type Dashboard struct {
	cfg *config.Config
}

func New(cfg *config.Config) *Dashboard { return &Dashboard{cfg: cfg} }

func (d *Dashboard) ServeDashboard(w http.ResponseWriter, r *http.Request) {
	w.Header().Set("Content-Type", "text/html; charset=utf-8")
	w.Write([]byte("<!doctype html><title>reservoir</title>"))
}

func (d *Dashboard) RegisterHandlers(mux *http.ServeMux) error {
	mux.HandleFunc("/", d.ServeDashboard)
	return nil
}
`
