module verif

go 1.26
