//go:build !race

package vsched

func raceDisable() {}
func raceEnable()  {}

const RaceEnabled = false
