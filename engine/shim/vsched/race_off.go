//go:build !race

package vsched

func raceDisable() {}
func raceEnable()  {}

const RaceEnabled = false

func RaceErrors() int { return 0 }

func raceReleaseMergeJoin() {}
func raceAcquireJoin()      {}
