package vsched

import (
	"fmt"
	"hash/fnv"
	"time"
)

// Explorer enumerates every execution of a scenario whose choice sequence costs at
// most K preemptions and E environment deviations. Stateless: a successor is obtained
// by replaying a choice prefix on a fresh instance. The bound is iterated (total cost
// 0, 1, 2, ...) with a depth-first search per iteration, so the first counterexample
// has the fewest deviations and memory stays proportional to the depth; executions
// of lower cost are re-run in later iterations only to regenerate their children
// (about 1 % overhead) and are not counted or judged again.
type Explorer struct {
	K, E     int
	F        int // budget for non-default choices at non-preemptive switches (running thread blocked or finished); <0 = unbounded, as in CHESS
	Horizon  int
	Shard    int // this worker's index
	NShards  int // number of workers (>=1)
	Deadline time.Time
	MaxExecs int
	Atomic   func(ptr uintptr) bool

	// Stats
	Execs       int // executions run by this worker, including re-runs and the shared prelude
	Counted     int // distinct executions this worker owns (each judged exactly once)
	Transitions int // scheduling steps of owned executions
	Decisions   int // branching decisions of owned executions
	NewNodes    int // decision-tree nodes first visited by an owned execution
	MaxDepth    int
	Capped      string
	DoneCost    int // highest total cost whose iteration completed (-1: none)
}

type item struct {
	prefix []int
	hash   uint64 // cumulative label hash expected after replaying prefix
	pre    int
	env    int
	free   int
	mine   bool
}

//go:norace
func labelHash(prev uint64, label string) uint64 {
	h := fnv.New64a()
	var b [8]byte
	for i := 0; i < 8; i++ {
		b[i] = byte(prev >> (8 * i))
	}
	h.Write(b[:])
	h.Write([]byte(label))
	return h.Sum64()
}

// Explore calls run for every choice prefix within the bounds; check is invoked once
// for every execution this worker owns and returns false to stop.
func (e *Explorer) Explore(run func(cfg Config) *Exec, check func(x *Exec) bool) error {
	if e.NShards <= 0 {
		e.NShards = 1
	}
	e.DoneCost = -1
	maxCost := e.K + e.E
	if e.F > 0 {
		maxCost += e.F
	}
	dealLevel := 2
	if maxCost <= 1 {
		dealLevel = 1
	}
	if e.NShards == 1 {
		dealLevel = 0
	}
	for bound := 0; bound <= maxCost; bound++ {
		dealt := 0
		prunedByBound := false
		stack := []item{{mine: e.NShards == 1 || e.Shard == 0}}
		for len(stack) > 0 {
			it := stack[len(stack)-1]
			stack = stack[:len(stack)-1]
			if !e.Deadline.IsZero() && time.Now().After(e.Deadline) {
				e.Capped = fmt.Sprintf("deadline (cost %d iteration incomplete)", bound)
				return nil
			}
			if e.MaxExecs > 0 && e.Execs >= e.MaxExecs {
				e.Capped = fmt.Sprintf("max_execs (cost %d iteration incomplete)", bound)
				return nil
			}
			cost := it.pre + it.env
			if e.F >= 0 {
				cost += it.free
			}
			x := run(Config{Prefix: it.prefix, ExpectHash: it.hash, Horizon: e.Horizon, AtomicFilter: e.Atomic})
			e.Execs++
			if x.Status == "nondeterminism" || x.Status == "leak" {
				return fmt.Errorf("%s: %s (prefix %v)", x.Status, x.Detail, it.prefix)
			}
			if cost == bound && it.mine {
				e.Counted++
				e.Transitions += x.Steps
				e.Decisions += len(x.Points)
				e.NewNodes += len(x.Points) - len(it.prefix) + 1
				if len(x.Points) > e.MaxDepth {
					e.MaxDepth = len(x.Points)
				}
				if !check(x) {
					return nil
				}
			}
			// children, pushed in reverse so that the earliest deviation is explored first
			var h uint64
			hashes := make([]uint64, len(x.Points))
			for i, p := range x.Points {
				h = labelHash(h, p.Label)
				hashes[i] = h
			}
			var kids []item
			for i := len(it.prefix); i < len(x.Points); i++ {
				p := x.Points[i]
				for alt := 1; alt < p.N; alt++ {
					cpre, cenv, cfree := it.pre, it.env, it.free
					if p.Env {
						if !p.Free {
							cenv++
						}
					} else if p.RunEn {
						cpre++
					} else {
						cfree++
					}
					ccost := cpre + cenv
					if e.F >= 0 {
						ccost += cfree
					}
					if cpre > e.K || cenv > e.E || (e.F >= 0 && cfree > e.F) {
						continue
					}
					if ccost > bound {
						prunedByBound = true
						continue
					}
					child := item{pre: cpre, env: cenv, free: cfree, mine: it.mine, hash: hashes[i]}
					if e.NShards > 1 {
						if ccost < dealLevel {
							child.mine = e.Shard == 0
						} else if cost < dealLevel {
							child.mine = dealt%e.NShards == e.Shard
							dealt++
							if !child.mine {
								continue // another worker owns this subtree
							}
						}
					}
					child.prefix = make([]int, i+1)
					for j := 0; j < i; j++ {
						child.prefix[j] = x.Points[j].Choice
					}
					child.prefix[i] = alt
					kids = append(kids, child)
				}
			}
			for i := len(kids) - 1; i >= 0; i-- {
				stack = append(stack, kids[i])
			}
		}
		e.DoneCost = bound
		if !prunedByBound {
			// nothing was cut off by the iteration bound: larger bounds add no execution
			e.DoneCost = maxCost
			break
		}
	}
	return nil
}
