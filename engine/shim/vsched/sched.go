// Package vsched is the cooperative scheduler that the instrumented reservoir code
// runs under. Exactly one scheduled thread runs at a time; a thread hands control
// back at every "point" (sync operation, channel operation, atomics wrapper call,
// spawn, explicit yield, environment choice). The scheduler records every branching
// decision so that an execution is a pure function of its choice sequence.
//
// When no scheduler is installed (cur == nil) every shim falls through to the real
// primitive: that is "passthrough" mode, used by harnesses that need real goroutines
// (http.Server, TLS over net.Pipe).
//
// Race-oracle hygiene (engine E2): in -race builds the scheduler must neither report
// races of its own nor add happens-before edges between threads. Therefore every
// function here is //go:norace, there are no closures (they cannot carry the pragma),
// no Go maps (the runtime instruments map accesses by caller PC regardless of the
// pragma) and no fmt/sync.Pool use on the paths that run while threads are live; the
// hand-off channels are used inside runtime.RaceDisable sections.
package vsched

import (
	"reflect"
	"runtime"
	"runtime/debug"
	"sort"
	"strconv"
	"strings"
	"sync"
	"time"
)

type Kind uint8

const (
	KStart Kind = iota
	KLock
	KLockWait
	KRLock
	KTryLock
	KWGWait
	KOnce
	KSend
	KRecv
	KClose
	KSelect
	KAtomic
	KYield
	KGate
	KSpawn
	KQuiesce
	KJoin
	KChoose
)

var kindNames = [...]string{"start", "lock", "lockwait", "rlock", "trylock", "wgwait", "once", "send", "recv", "close", "select", "atomic", "yield", "gate", "spawn", "quiesce", "join", "choose"}

func (k Kind) String() string { return kindNames[k] }

// Enabler decides whether a published operation could run now without blocking.
// Implementations must be //go:norace methods (they read shim state written by other
// threads).
type Enabler interface {
	Enabled(kind Kind) bool
}

type op struct {
	kind  Kind
	label string
	obj   uintptr
	en    Enabler // nil: always enabled
	low   bool    // a gate: enabled, but by default every other enabled thread runs first
}

type thread struct {
	id       int
	name     string
	daemon   bool
	wake     chan struct{}
	pend     *op
	finished bool
}

// PointRec is one recorded branching decision.
type PointRec struct {
	N       int    `json:"n"`             // number of alternatives
	Choice  int    `json:"c"`             // alternative taken
	RunEn   bool   `json:"re,omitempty"`  // alternative 0 is the running thread, still enabled (so alt>0 is a preemption)
	Env     bool   `json:"env,omitempty"` // environment choice (Choose), not a thread choice
	Free    bool   `json:"free,omitempty"`
	Label   string `json:"l"`
	Running int    `json:"r"`
}

// Exec is the record of one complete execution.
type Exec struct {
	Points   []PointRec
	Steps    int
	Status   string // "complete", "deadlock", "horizon", "panic", "leak", "nondeterminism"
	Detail   string
	Blocked  []string // threads still blocked at the end (daemons parked; on deadlock: everybody)
	Trace    []string // full step trace (only if Config.Trace)
	PanicVal string
	Stack    string
}

func (x *Exec) Choices() []int {
	c := make([]int, len(x.Points))
	for i, p := range x.Points {
		c[i] = p.Choice
	}
	return c
}

type Config struct {
	Prefix  []int
	Horizon int
	Trace   bool
	// AtomicFilter, if set, decides whether an atomics-wrapper call on the object at
	// ptr is a scheduling point. Demoted objects are never points.
	AtomicFilter func(ptr uintptr) bool
	// ExpectHash, if non-zero, is the cumulative hash of the decision labels that the
	// recorded execution observed up to the end of the prefix; a different hash while
	// replaying means the execution diverged: a nondeterminism error, never a verdict.
	ExpectHash uint64
}

type Sched struct {
	cfg      Config
	threads  []*thread
	running  *thread
	exec     *Exec
	pos      int // index of the next branching decision
	killed   bool
	over     bool
	doneCh   chan struct{}
	wg       sync.WaitGroup
	objs     []uintptr // object numbering in publication order
	Nondet   string
	chClosed []uintptr
	pinned   []reflect.Value
	cum      uint64
}

var cur *Sched

// Active reports whether a scheduler is installed.
//
//go:norace
func Active() bool { return cur != nil && !cur.killed }

// Mode: 0 = passthrough (no scheduler: use the real primitive), 1 = scheduled,
// 2 = teardown (the execution is over; shim operations are no-ops so that deferred
// unlocks of goroutines leaving through Goexit cannot fault).
//
//go:norace
func Mode() int {
	s := cur
	if s == nil {
		return 0
	}
	if s.killed {
		return 2
	}
	return 1
}

//go:norace
func installed() *Sched {
	s := cur
	if s == nil || s.killed {
		return nil
	}
	return s
}

// Run executes body as thread 0 under a fresh scheduler following cfg.Prefix and
// then the default choice (0) everywhere.
//
//go:norace
func Run(cfg Config, body func()) *Exec {
	if cfg.Horizon <= 0 {
		cfg.Horizon = 20000
	}
	s := &Sched{cfg: cfg, exec: &Exec{}, doneCh: make(chan struct{}, 1)}
	cur = s
	t0 := s.newThread("main", false, body)
	s.running = t0
	handoff(t0)
	<-s.doneCh
	// teardown: release every parked goroutine; they leave through Goexit.
	raceDisable()
	s.killed = true
	for _, t := range s.threads {
		if !t.finished {
			close(t.wake)
		}
	}
	raceEnable()
	waitCh := make(chan struct{})
	go waitAll(s, waitCh)
	select {
	case <-waitCh:
	case <-time.After(20 * time.Second):
		s.exec.Status = "leak"
		s.exec.Detail = "goroutines of the execution did not terminate during teardown"
	}
	cur = nil
	if s.Nondet != "" {
		s.exec.Status = "nondeterminism"
		s.exec.Detail = s.Nondet
	}
	return s.exec
}

//go:norace
func waitAll(s *Sched, ch chan struct{}) { s.wg.Wait(); close(ch) }

//go:norace
func handoff(t *thread) {
	raceDisable()
	t.wake <- struct{}{}
	raceEnable()
}

//go:norace
func (s *Sched) newThread(name string, daemon bool, fn func()) *thread {
	t := &thread{id: len(s.threads), name: name, daemon: daemon, wake: make(chan struct{}, 1)}
	t.pend = &op{kind: KStart, label: name}
	s.threads = append(s.threads, t)
	s.wg.Add(1)
	go s.threadMain(t, fn)
	return t
}

//go:norace
func (s *Sched) threadMain(t *thread, fn func()) {
	defer s.wg.Done()
	defer s.recoverThread(t)
	raceDisable()
	_, ok := <-t.wake
	raceEnable()
	if !ok || s.killed {
		return
	}
	t.pend = nil
	fn()
	if s.killed {
		return
	}
	t.finished = true
	raceReleaseMergeJoin()
	s.schedule(t)
}

//go:norace
func (s *Sched) recoverThread(t *thread) {
	if r := recover(); r != nil {
		if s.killed {
			return
		}
		s.exec.PanicVal = sprint(r)
		s.exec.Stack = string(debug.Stack())
		s.finish("panic", "thread "+strconv.Itoa(t.id)+"("+t.name+") panicked: "+s.exec.PanicVal)
	}
}

//go:norace
func sprint(r any) string {
	switch v := r.(type) {
	case string:
		return v
	case error:
		return v.Error()
	case interface{ String() string }:
		return v.String()
	}
	return "panic value of type " + typeName(r)
}

// finish ends the execution with the given status; the caller's goroutine must
// stop touching scheduler state afterwards.
//
//go:norace
func (s *Sched) finish(status, detail string) {
	if s.over {
		return
	}
	s.over = true
	s.exec.Status = status
	s.exec.Detail = detail
	for _, t := range s.threads {
		if !t.finished && t.pend != nil {
			s.exec.Blocked = append(s.exec.Blocked, strconv.Itoa(t.id)+"("+t.name+")@"+t.pend.kind.String()+":"+t.pend.label)
		}
	}
	s.doneCh <- struct{}{}
}

//go:norace
func (s *Sched) objID(p uintptr) int {
	if p == 0 {
		return 0
	}
	for i, q := range s.objs {
		if q == p {
			return i + 1
		}
	}
	s.objs = append(s.objs, p)
	return len(s.objs)
}

//go:norace
func (o *op) enabledNow() bool { return o.en == nil || o.en.Enabled(o.kind) }

// point publishes the operation the running thread is about to perform and returns
// once the scheduler lets this thread perform it.
//
//go:norace
func (s *Sched) point(o *op) {
	t := s.running
	t.pend = o
	s.schedule(t)
	t.pend = nil
}

// schedule picks the next thread to run. Called on the goroutine of thread t, which
// is either at a point (t.pend != nil) or finished.
//
//go:norace
func (s *Sched) schedule(t *thread) {
	if s.over {
		s.park(t)
		return
	}
	s.exec.Steps++
	if s.exec.Steps > s.cfg.Horizon {
		s.finish("horizon", "more than "+strconv.Itoa(s.cfg.Horizon)+" steps")
		s.park(t)
		return
	}
	if t.pend != nil {
		s.objID(t.pend.obj) // number objects in publication order (deterministic labels)
	}
	var enabled []*thread
	runEn := false
	if !t.finished && t.pend != nil && !t.pend.low && t.pend.enabledNow() {
		enabled = append(enabled, t)
		runEn = true
	}
	for _, u := range s.threads {
		if u == t || u.finished || u.pend == nil || u.pend.low {
			continue
		}
		if u.pend.enabledNow() {
			enabled = append(enabled, u)
		}
	}
	// threads waiting at a gate come last: the default is to let everybody else run as far as
	// they can first; letting a gated thread through earlier is a deviation like any other
	for _, u := range s.threads {
		if u.finished || u.pend == nil || !u.pend.low {
			continue
		}
		if u.pend.enabledNow() {
			enabled = append(enabled, u)
		}
	}
	if len(enabled) == 0 {
		harnessLeft := false
		for _, u := range s.threads {
			if !u.daemon && !u.finished {
				harnessLeft = true
			}
		}
		if harnessLeft {
			s.finish("deadlock", "no enabled thread while a harness thread is unfinished")
		} else {
			s.finish("complete", "")
		}
		s.park(t)
		return
	}
	choice := 0
	if len(enabled) > 1 {
		var b strings.Builder
		for i, u := range enabled {
			if i > 0 {
				b.WriteByte(' ')
			}
			// Labels identify thread, operation kind and the static operation name, not the
			// object: object numbers are derived from addresses, and an address can be reused
			// for another short-lived object depending on when the collector runs, which would
			// make the determinism guard raise a false "diverged" error.
			b.WriteString(strconv.Itoa(u.id))
			b.WriteByte(':')
			b.WriteString(u.pend.kind.String())
			b.WriteByte('/')
			b.WriteString(u.pend.label)
		}
		choice = s.decide(len(enabled), runEn, false, false, b.String(), t.id)
		if s.over {
			s.park(t)
			return
		}
	}
	next := enabled[choice]
	if s.cfg.Trace {
		s.exec.Trace = append(s.exec.Trace, "T"+strconv.Itoa(next.id)+"("+next.name+") "+next.pend.kind.String()+" "+next.pend.label+"#"+strconv.Itoa(s.objID(next.pend.obj)))
	}
	if next == t {
		return
	}
	s.running = next
	handoff(next)
	s.park(t)
}

// decide records one branching decision and returns the alternative to take.
//
//go:norace
func (s *Sched) decide(n int, runEn, env, free bool, lab string, running int) int {
	i := s.pos
	s.pos++
	choice := 0
	if i < len(s.cfg.Prefix) {
		choice = s.cfg.Prefix[i]
		if choice < 0 || choice >= n {
			s.Nondet = "replayed choice " + strconv.Itoa(choice) + " out of range (n=" + strconv.Itoa(n) + ") at decision " + strconv.Itoa(i) + " (" + lab + ")"
			s.finish("nondeterminism", s.Nondet)
			return 0
		}
		s.cum = labelHash(s.cum, lab)
		if i == len(s.cfg.Prefix)-1 && s.cfg.ExpectHash != 0 && s.cum != s.cfg.ExpectHash {
			s.Nondet = "replay diverged within the first " + strconv.Itoa(i+1) + " decisions (label hash mismatch; last label now \"" + lab + "\")"
			s.finish("nondeterminism", s.Nondet)
			return 0
		}
	}
	s.exec.Points = append(s.exec.Points, PointRec{N: n, Choice: choice, RunEn: runEn, Env: env, Free: free, Label: lab, Running: running})
	return choice
}

// park blocks the calling thread goroutine until it is scheduled again (or killed).
//
//go:norace
func (s *Sched) park(t *thread) {
	if t.finished {
		return // goroutine simply ends
	}
	raceDisable()
	_, ok := <-t.wake
	raceEnable()
	if !ok || s.killed {
		runtime.Goexit()
	}
}

// ---- public API used by the shims and the harnesses ----

// Point is a generic scheduling point with an enabledness predicate.
//
//go:norace
func Point(kind Kind, obj uintptr, label string, en Enabler) {
	s := installed()
	if s == nil {
		return
	}
	s.point(&op{kind: kind, label: label, obj: obj, en: en})
}

// Yield is a harness-level scheduling point.
//
//go:norace
func Yield(label string) { Point(KYield, 0, label, nil) }

// AtomicPoint is called first thing by every utils/atomics method.
//
//go:norace
func AtomicPoint(ptr uintptr, label string) {
	s := installed()
	if s == nil {
		return
	}
	if s.cfg.AtomicFilter != nil && !s.cfg.AtomicFilter(ptr) {
		return
	}
	s.point(&op{kind: KAtomic, label: label, obj: ptr})
}

// Go starts fn as a daemon thread (code under test) under the scheduler, or as a
// plain goroutine in passthrough mode.
//
//go:norace
func Go(fn func()) { spawn("daemon", true, fn) }

// GoHarness starts fn as a harness (non-daemon) thread.
//
//go:norace
func GoHarness(name string, fn func()) { spawn(name, false, fn) }

//go:norace
func spawn(name string, daemon bool, fn func()) {
	s := installed()
	if s == nil {
		if cur != nil && cur.killed {
			return
		}
		go fn()
		return
	}
	if daemon {
		_, file, line, _ := runtime.Caller(2)
		if i := strings.LastIndex(file, "/"); i >= 0 {
			file = file[i+1:]
		}
		name = file + ":" + strconv.Itoa(line)
	}
	s.newThread(name, daemon, fn)
	s.point(&op{kind: KSpawn, label: name})
}

// Choose is an environment choice with n alternatives; alternative 0 is the default.
//
//go:norace
func Choose(label string, n int) int {
	s := installed()
	if s == nil || n <= 1 {
		return 0
	}
	return s.decide(n, false, true, false, "env:"+label, s.running.id)
}

// ChooseFree is like Choose but its alternatives do not count as deviations.
//
//go:norace
func ChooseFree(label string, n int) int {
	s := installed()
	if s == nil || n <= 1 {
		return 0
	}
	return s.decide(n, false, true, true, "env:"+label, s.running.id)
}

type quiesceEn struct {
	s  *Sched
	me *thread
}

// Enabled: KQuiesce is enabled when no other thread is enabled; KJoin when every
// other harness thread has finished.
//
//go:norace
func (q quiesceEn) Enabled(kind Kind) bool {
	for _, u := range q.s.threads {
		if u == q.me || u.finished {
			continue
		}
		if kind == KJoin {
			if !u.daemon {
				return false
			}
			continue
		}
		if u.pend != nil && u.pend.enabledNow() {
			return false
		}
	}
	return true
}

// Quiesce blocks the calling harness thread until no other thread is enabled, i.e.
// until every daemon has run as far as it can.
//
//go:norace
func Quiesce() {
	s := installed()
	if s == nil {
		return
	}
	s.point(&op{kind: KQuiesce, label: "quiesce", en: quiesceEn{s, s.running}})
}

// Gate is a scheduling point at which the calling thread stays enabled but, by default, lets
// every other enabled thread run first (until they block or finish). Unlike Quiesce the
// explorer may also let it through early, at the price of one deviation, so that schedules
// in which the gated step lands while another thread is part-way through are covered too.
//
//go:norace
func Gate(label string) {
	s := installed()
	if s == nil {
		return
	}
	s.point(&op{kind: KYield, label: "gate:" + label, low: true})
}

// JoinHarness blocks until every other harness (non-daemon) thread has finished.
//
//go:norace
func JoinHarness() {
	s := installed()
	if s == nil {
		return
	}
	s.point(&op{kind: KJoin, label: "join", en: quiesceEn{s, s.running}})
	raceAcquireJoin() // a real join orders everything the joined threads did before what follows
}

// BlockedDaemons lists daemon threads that are parked (blocked) right now.
//
//go:norace
func BlockedDaemons() []string {
	s := installed()
	if s == nil {
		return nil
	}
	var out []string
	for _, u := range s.threads {
		if u.daemon && !u.finished && u.pend != nil && u != s.running {
			out = append(out, u.name+"@"+u.pend.kind.String()+":"+u.pend.label)
		}
	}
	sort.Strings(out)
	return out
}

// CurrentThread returns the id of the running scheduled thread (-1 in passthrough).
//
//go:norace
func CurrentThread() int {
	s := installed()
	if s == nil {
		return -1
	}
	return s.running.id
}

// SetMapReverse makes MapOrder iterate in descending key order.
func SetMapReverse(b bool) { mapReverse = b }

var mapReverse bool

// ---- listener capture (rule R8) ----

// Captured holds the handler expressions the code under test handed to its listeners.
var Captured = map[string]any{}

// CaptureHandler records the handler a listener is constructed with.
func CaptureHandler(addr string, h any) { Captured[addr] = h }

var stamp int

// Stamp returns a strictly increasing logical timestamp (harness recorders use it for
// call/return ordering; only one thread runs at a time).
//
//go:norace
func Stamp() int { stamp++; return stamp }
