//go:build race

package vsched

import (
	"runtime"
	"unsafe"
)

//go:norace
func raceDisable() { runtime.RaceDisable() }

//go:norace
func raceEnable() { runtime.RaceEnable() }

const RaceEnabled = true

// RaceErrors is the number of races the detector has reported so far.
func RaceErrors() int { return runtime.RaceErrors() }

var joinToken byte

//go:norace
func raceReleaseMergeJoin() { runtime.RaceReleaseMerge(unsafe.Pointer(&joinToken)) }

//go:norace
func raceAcquireJoin() { runtime.RaceAcquire(unsafe.Pointer(&joinToken)) }
