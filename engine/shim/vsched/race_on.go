//go:build race

package vsched

import "runtime"

//go:norace
func raceDisable() { runtime.RaceDisable() }

//go:norace
func raceEnable() { runtime.RaceEnable() }

const RaceEnabled = true
