package vsched

import (
	"reflect"
	"runtime"
	"sort"
	"strconv"
)

//go:norace
func typeName(v any) string { return reflect.TypeOf(v).String() }

//go:norace
func (s *Sched) isClosed(p uintptr) bool {
	for _, q := range s.chClosed {
		if q == p {
			return true
		}
	}
	return false
}

//go:norace
func (s *Sched) markClosed(p uintptr) {
	if !s.isClosed(p) {
		s.chClosed = append(s.chClosed, p)
	}
}

// keepAlive pins a closed channel for the rest of the execution, so that its address cannot be
// reused by another channel (which would then look closed to the registry).
//
//go:norace
func (s *Sched) keepAlive(v reflect.Value) { s.pinned = append(s.pinned, v) }

// chanEn is the enabledness of a channel operation.
type chanEn struct {
	s *Sched
	v reflect.Value
}

//go:norace
func (c chanEn) Enabled(kind Kind) bool {
	if kind == KSend {
		return c.s.sendReady(c.v)
	}
	return c.s.recvReady(c.v)
}

type selectEn struct {
	s          *Sched
	cases      []Case
	hasDefault bool
}

//go:norace
func (e selectEn) Enabled(Kind) bool {
	if e.hasDefault {
		return true
	}
	for _, c := range e.cases {
		if c.send {
			if e.s.sendReady(c.ch) {
				return true
			}
		} else if e.s.recvReady(c.ch) {
			return true
		}
	}
	return false
}

// ---- channels (rule R3). The real channel is kept; the scheduler only decides when
// an operation may run, i.e. when it cannot block. ----

//go:norace
func chanPtr(v reflect.Value) uintptr { return v.Pointer() }

//go:norace
func (s *Sched) recvReady(v reflect.Value) bool {
	if v.IsNil() {
		return false
	}
	if v.Len() > 0 {
		return true
	}
	if s.isClosed(chanPtr(v)) {
		return true
	}
	// Channels closed by code that is not instrumented (context cancellation): an
	// empty channel on which a non-blocking receive succeeds can only be closed,
	// because every sender under the scheduler is a thread that is not running now.
	x, ok := v.TryRecv()
	if x.IsValid() && !ok {
		s.markClosed(chanPtr(v))
		s.keepAlive(v)
		return true
	}
	if x.IsValid() && ok {
		panic("vsched: probe consumed a value from a channel that reported length 0 (unbuffered rendezvous is not modelled)")
	}
	return false
}

//go:norace
func (s *Sched) sendReady(v reflect.Value) bool {
	if v.IsNil() {
		return false
	}
	if s.isClosed(chanPtr(v)) {
		return true // will panic, as the real send does
	}
	if v.Cap() == 0 {
		panic("vsched: send on an unbuffered channel under the scheduler is not modelled")
	}
	return v.Len() < v.Cap()
}

// Recv is `<-ch`.
//
//go:norace
func Recv[T any](ch <-chan T) T {
	if s := installed(); s != nil {
		v := reflect.ValueOf(ch)
		s.point(&op{kind: KRecv, label: "recv", obj: chanPtr(v), en: chanEn{s, v}})
	} else if Mode() == 2 {
		var zero T
		return zero
	}
	return <-ch
}

// Recv2 is `v, ok := <-ch`.
//
//go:norace
func Recv2[T any](ch <-chan T) (T, bool) {
	if s := installed(); s != nil {
		v := reflect.ValueOf(ch)
		s.point(&op{kind: KRecv, label: "recv", obj: chanPtr(v), en: chanEn{s, v}})
	} else if Mode() == 2 {
		var zero T
		return zero, false
	}
	x, ok := <-ch
	return x, ok
}

// Send is `ch <- v`; do performs the real send.
//
//go:norace
func Send(ch any, do func()) {
	if s := installed(); s != nil {
		v := reflect.ValueOf(ch)
		s.point(&op{kind: KSend, label: "send", obj: chanPtr(v), en: chanEn{s, v}})
	} else if Mode() == 2 {
		return
	}
	do()
}

// Close is `close(ch)`.
//
//go:norace
func Close(ch any, do func()) {
	if s := installed(); s != nil {
		v := reflect.ValueOf(ch)
		s.point(&op{kind: KClose, label: "close", obj: chanPtr(v)})
		s.markClosed(chanPtr(v))
		s.keepAlive(v)
	} else if Mode() == 2 {
		return
	}
	do()
}

// MarkClosed tells the scheduler that a channel was closed by shim code.
//
//go:norace
func MarkClosed(ch any) {
	if s := installed(); s != nil {
		s.markClosed(chanPtr(reflect.ValueOf(ch)))
	}
}

type Case struct {
	ch   reflect.Value
	send bool
	val  reflect.Value
}

//go:norace
func RecvCase(ch any) Case { return Case{ch: reflect.ValueOf(ch)} }

//go:norace
func SendCase(ch any, v any) Case {
	c := Case{ch: reflect.ValueOf(ch), send: true}
	et := c.ch.Type().Elem()
	if v == nil {
		c.val = reflect.Zero(et)
	} else {
		c.val = reflect.ValueOf(v)
		if c.val.Type() != et {
			c.val = c.val.Convert(et)
		}
	}
	return c
}

// Sel is the outcome of a select.
type Sel struct {
	Idx int // chosen arm, -1 = default
	val reflect.Value
	ok  bool
}

// Select implements a select statement: it blocks until an arm is ready (or takes
// the default), chooses among ready arms (an environment choice under the
// scheduler, because Go chooses at random) and performs the channel operation.
//
//go:norace
func Select(hasDefault bool, cases ...Case) *Sel {
	s := installed()
	if s == nil {
		if Mode() == 2 {
			return &Sel{Idx: -2}
		}
		rc := make([]reflect.SelectCase, 0, len(cases)+1)
		for _, c := range cases {
			if c.send {
				rc = append(rc, reflect.SelectCase{Dir: reflect.SelectSend, Chan: c.ch, Send: c.val})
			} else {
				rc = append(rc, reflect.SelectCase{Dir: reflect.SelectRecv, Chan: c.ch})
			}
		}
		if hasDefault {
			rc = append(rc, reflect.SelectCase{Dir: reflect.SelectDefault})
		}
		i, v, ok := reflect.Select(rc)
		if hasDefault && i == len(cases) {
			return &Sel{Idx: -1}
		}
		return &Sel{Idx: i, val: v, ok: ok}
	}
	var obj uintptr
	if len(cases) > 0 && !cases[0].ch.IsNil() {
		obj = chanPtr(cases[0].ch)
	}
	s.point(&op{kind: KSelect, label: "select/" + strconv.Itoa(len(cases)), obj: obj, en: selectEn{s, cases, hasDefault}})
	var r []int
	for i, c := range cases {
		if c.send {
			if s.sendReady(c.ch) {
				r = append(r, i)
			}
		} else if s.recvReady(c.ch) {
			r = append(r, i)
		}
	}
	if len(r) == 0 {
		return &Sel{Idx: -1}
	}
	k := 0
	if len(r) > 1 {
		lab := "select-arm"
		for _, i := range r {
			lab += "," + strconv.Itoa(i)
		}
		k = Choose(lab, len(r))
	}
	i := r[k]
	c := cases[i]
	if c.send {
		c.ch.Send(c.val)
		return &Sel{Idx: i}
	}
	v, ok := c.ch.Recv()
	return &Sel{Idx: i, val: v, ok: ok}
}

// SelectPanic is the argument of the panic in the default clause that the instrumenter adds to
// a rewritten select without default (never reached while an execution is live; during
// teardown the goroutine simply leaves).
//
//go:norace
func SelectPanic(s *Sel) string {
	if Mode() == 2 || s.Idx == -2 {
		runtime.Goexit()
	}
	return "vsched: select returned no arm"
}

// Got returns the value received by the chosen arm, typed by the arm's channel.
//
//go:norace
func Got[T any](ch <-chan T, s *Sel) T {
	v, _ := Got2(ch, s)
	return v
}

//go:norace
func Got2[T any](_ <-chan T, s *Sel) (T, bool) {
	var zero T
	if !s.val.IsValid() {
		return zero, s.ok
	}
	if x, ok := s.val.Interface().(T); ok {
		return x, s.ok
	}
	return zero, s.ok
}

// keyString renders a map key for ordering without fmt (fmt's sync.Pool would add
// happens-before edges between the threads that iterate maps).
func keyString(v reflect.Value) string {
	switch v.Kind() {
	case reflect.String:
		return v.String()
	case reflect.Int, reflect.Int8, reflect.Int16, reflect.Int32, reflect.Int64:
		return strconv.FormatInt(v.Int(), 10)
	case reflect.Uint, reflect.Uint8, reflect.Uint16, reflect.Uint32, reflect.Uint64, reflect.Uintptr:
		return strconv.FormatUint(v.Uint(), 10)
	case reflect.Bool:
		return strconv.FormatBool(v.Bool())
	case reflect.Struct:
		s := "{"
		for i := 0; i < v.NumField(); i++ {
			s += keyString(v.Field(i)) + " "
		}
		return s + "}"
	case reflect.Pointer, reflect.Chan, reflect.UnsafePointer:
		return strconv.FormatUint(uint64(v.Pointer()), 16)
	case reflect.Interface:
		if v.IsNil() {
			return "<nil>"
		}
		return keyString(v.Elem())
	case reflect.Array:
		s := "["
		for i := 0; i < v.Len(); i++ {
			s += keyString(v.Index(i)) + " "
		}
		return s + "]"
	case reflect.Float32, reflect.Float64:
		return strconv.FormatFloat(v.Float(), 'g', -1, 64)
	}
	return v.Type().String()
}

// ---- map iteration order (rule R7) ----

// MapOrder iterates m in sorted key order (by the keys' %v form), so that executions
// are deterministic. Entries deleted during the iteration are skipped, as in Go.
func MapOrder[M ~map[K]V, K comparable, V any](m M) func(yield func(K, V) bool) {
	return func(yield func(K, V) bool) {
		type kv struct {
			k K
			s string
		}
		keys := make([]kv, 0, len(m))
		for k := range m {
			keys = append(keys, kv{k, keyString(reflect.ValueOf(k))})
		}
		sort.Slice(keys, func(i, j int) bool {
			if mapReverse {
				return keys[i].s > keys[j].s
			}
			return keys[i].s < keys[j].s
		})
		for _, e := range keys {
			v, ok := m[e.k]
			if !ok {
				continue
			}
			if !yield(e.k, v) {
				return
			}
		}
	}
}
