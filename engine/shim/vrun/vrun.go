// Package vrun is the in-binary side of the check driver: a harness test binary is
// started by `vf` with a spec (scenario name, bounds, shard) and writes a result file.
package vrun

import (
	"encoding/json"
	"fmt"
	"io"
	"log/slog"
	"os"
	"runtime"
	"runtime/debug"
	"sort"
	"strconv"
	"strings"
	"syscall"
	"testing"
	"time"

	"reservoir/zzverif/vsched"
)

type Spec struct {
	Scenario    string          `json:"scenario"`
	Params      json.RawMessage `json:"params,omitempty"`
	Tier        string          `json:"tier"`
	K           int             `json:"k"`
	E           int             `json:"e"`
	F           int             `json:"f"`
	Horizon     int             `json:"horizon"`
	Shard       int             `json:"shard"`
	NShards     int             `json:"nshards"`
	DeadlineSec int             `json:"deadline_sec"`
	MaxExecs    int             `json:"max_execs"`
	Replay      []int           `json:"replay,omitempty"`
	ReplayCase  string          `json:"replay_case,omitempty"`
	Trace       bool            `json:"trace,omitempty"`
	Seed        int64           `json:"seed"`
	Race        bool            `json:"race,omitempty"`
	Only        string          `json:"only,omitempty"` // run only sub-scenarios whose name contains this
}

type Violation struct {
	Key      string   `json:"key"` // stable class identifier, matched against known findings
	Scenario string   `json:"scenario"`
	Case     string   `json:"case,omitempty"` // the input / history / sub-scenario
	Message  string   `json:"message"`
	Choices  []int    `json:"choices,omitempty"`
	Labels   []string `json:"labels,omitempty"`
	Trace    []string `json:"trace,omitempty"`
	Pre      int      `json:"preemptions,omitempty"`
	Count    int      `json:"count"`
}

type Result struct {
	Scenario    string         `json:"scenario"`
	Shard       int            `json:"shard"`
	Execs       int            `json:"execs"`
	Owned       int            `json:"owned"`
	Transitions int            `json:"transitions"`
	Decisions   int            `json:"decisions"`
	States      int            `json:"states"`
	MaxDepth    int            `json:"max_depth"`
	Cases       int            `json:"cases"`
	Outcomes    map[string]int `json:"outcomes"`
	Violations  []*Violation   `json:"violations"`
	Samples     []any          `json:"samples"`
	Capped      []string       `json:"capped,omitempty"`
	Error       string         `json:"error,omitempty"`
	Notes       []string       `json:"notes,omitempty"`
	WallS       float64        `json:"wall_s"`
	Bounds      map[string]any `json:"bounds,omitempty"`
	PerScenario []ScenarioStat `json:"per_scenario,omitempty"`
	RaceExecs   []RaceExec     `json:"race_execs,omitempty"`
}

// RaceExec ties race reports (in the order the detector printed them) to the
// execution during which they appeared.
type RaceExec struct {
	Case    string `json:"case"`
	Choices []int  `json:"choices"`
	N       int    `json:"n"`
}

type ScenarioStat struct {
	Name     string  `json:"name"`
	K        int     `json:"k"`
	E        int     `json:"e"`
	Owned    int     `json:"owned"`
	Execs    int     `json:"execs"`
	DoneCost int     `json:"done_cost"`
	MaxDepth int     `json:"max_depth"`
	WallS    float64 `json:"wall_s"`
}

type Ctx struct {
	Spec     Spec
	Res      *Result
	vio      map[string]*Violation
	curCase  string
	deadline time.Time
	Stop     bool
	raceSeen int
}

type Scenario func(c *Ctx)

var registry = map[string]Scenario{}

func Register(name string, s Scenario) { registry[name] = s }

// Main is called from TestVF in every harness package.
func Main(t *testing.T) {
	specPath := os.Getenv("VF_SPEC")
	if specPath == "" {
		t.Skip("VF_SPEC not set")
	}
	slog.SetDefault(slog.New(slog.DiscardHandler))
	// Code under test may leak a descriptor per execution (the logging component never closes a
	// replaced file logger): with hundreds of thousands of executions per worker the default limit is
	// not enough. Raising it needs privileges; without them the harnesses report a cap instead.
	for _, n := range []uint64{1 << 20, 1 << 18, 1 << 16} {
		if syscall.Setrlimit(syscall.RLIMIT_NOFILE, &syscall.Rlimit{Cur: n, Max: n}) == nil {
			break
		}
	}
	b, err := os.ReadFile(specPath)
	if err != nil {
		t.Fatal(err)
	}
	var spec Spec
	if err := json.Unmarshal(b, &spec); err != nil {
		t.Fatal(err)
	}
	res := &Result{Scenario: spec.Scenario, Shard: spec.Shard, Outcomes: map[string]int{}, Bounds: map[string]any{}}
	c := &Ctx{Spec: spec, Res: res, vio: map[string]*Violation{}}
	if spec.DeadlineSec > 0 {
		c.deadline = time.Now().Add(time.Duration(spec.DeadlineSec) * time.Second)
	}
	if spec.NShards <= 0 {
		c.Spec.NShards = 1
	}
	start := time.Now()
	sc, ok := registry[spec.Scenario]
	if !ok {
		names := make([]string, 0, len(registry))
		for n := range registry {
			names = append(names, n)
		}
		sort.Strings(names)
		res.Error = fmt.Sprintf("unknown scenario %q (have %v)", spec.Scenario, names)
	} else {
		func() {
			defer func() {
				if r := recover(); r != nil {
					res.Error = fmt.Sprintf("harness panic: %v\n%s", r, debug.Stack())
				}
			}()
			sc(c)
		}()
	}
	res.WallS = time.Since(start).Seconds()
	keys := make([]string, 0, len(c.vio))
	for k := range c.vio {
		keys = append(keys, k)
	}
	sort.Strings(keys)
	for _, k := range keys {
		res.Violations = append(res.Violations, c.vio[k])
	}
	out, _ := json.MarshalIndent(res, "", " ")
	if p := os.Getenv("VF_OUT"); p != "" {
		if err := os.WriteFile(p, out, 0o644); err != nil {
			t.Fatal(err)
		}
	} else {
		io.WriteString(os.Stdout, string(out)+"\n")
	}
}

// Params decodes the scenario parameters.
func (c *Ctx) Params(v any) {
	if len(c.Spec.Params) > 0 {
		if err := json.Unmarshal(c.Spec.Params, v); err != nil {
			panic(fmt.Sprintf("bad params: %v", err))
		}
	}
}

func (c *Ctx) Thorough() bool { return c.Spec.Tier == "thorough" }

// SetCase names the sub-scenario / input / history subsequent reports belong to.
func (c *Ctx) SetCase(s string) { c.curCase = s }

// Mine reports whether this worker owns the i-th case of an enumeration.
func (c *Ctx) Mine(i int) bool { return i%c.Spec.NShards == c.Spec.Shard }

func (c *Ctx) Expired() bool {
	if c.Stop {
		return true
	}
	if !c.deadline.IsZero() && time.Now().After(c.deadline) {
		c.Cap("deadline")
		return true
	}
	return false
}

func (c *Ctx) Cap(what string) {
	for _, x := range c.Res.Capped {
		if x == what {
			return
		}
	}
	c.Res.Capped = append(c.Res.Capped, what)
}

func (c *Ctx) Note(format string, a ...any) {
	if len(c.Res.Notes) < 50 {
		c.Res.Notes = append(c.Res.Notes, fmt.Sprintf(format, a...))
	}
}

func (c *Ctx) Outcome(o string) { c.Res.Outcomes[o]++ }

func (c *Ctx) Sample(v any) {
	if len(c.Res.Samples) < 6 {
		c.Res.Samples = append(c.Res.Samples, v)
	}
}

// Violation records a property violation. key identifies the class (and is what a
// known-findings entry matches); only the first instance of a class keeps its replay.
func (c *Ctx) Violation(key, msg string, x *vsched.Exec) {
	if v, ok := c.vio[key]; ok {
		v.Count++
		return
	}
	v := &Violation{Key: key, Scenario: c.Spec.Scenario, Case: c.curCase, Message: msg, Count: 1}
	if x != nil {
		v.Choices = x.Choices()
		for _, p := range x.Points {
			v.Labels = append(v.Labels, p.Label)
			if !p.Env && p.RunEn && p.Choice != 0 {
				v.Pre++
			}
		}
		v.Trace = x.Trace
	}
	c.vio[key] = v
}

// Discard returns a copy of the context whose violations are thrown away.
func (c *Ctx) Discard() *Ctx {
	d := *c
	d.vio = map[string]*Violation{}
	return &d
}

// Case counts one enumerated case (input, history, ...).
func (c *Ctx) Case() { c.Res.Cases++ }

// ExploreOpts configures one schedule exploration.
type ExploreOpts struct {
	Name   string
	K, E   int // -1: take the spec's
	F      int // 0: take the spec's
	Atomic func(ptr uintptr) bool
	// Body is run as thread 0 of each execution, on a fresh instance.
	Body func()
	// Check judges one complete execution (status "complete"); deadlock, horizon and
	// panic are reported by the runner itself unless OnAbnormal is set.
	Check      func(x *vsched.Exec)
	OnAbnormal func(x *vsched.Exec) bool // return true if handled
	Prop       string                    // property id used in automatically generated keys
	// DivergenceIsCap: when a replayed prefix diverges, ask the harness whether a resource limit of the
	// worker process (not the code under test) explains it; if so the scenario is capped instead of
	// ending in a machinery error
	DivergenceIsCap func() bool
}

// Want reports whether the sub-scenario is selected (VF_ONLY filter).
func (c *Ctx) Want(name string) bool {
	return c.Spec.Only == "" || strings.Contains(name, c.Spec.Only)
}

// Explore enumerates all schedules of o.Body within the bounds, or replays one.
func (c *Ctx) Explore(o ExploreOpts) {
	if !c.Want(o.Name) {
		return
	}
	t0 := time.Now()
	k, e := o.K, o.E
	if k < 0 {
		k = c.Spec.K
	}
	if e < 0 {
		e = c.Spec.E
	}
	c.SetCase(o.Name)
	baseSteps, hangs := 0, 0
	judge := func(x *vsched.Exec) {
		if baseSteps == 0 && x.Status == "complete" {
			baseSteps = x.Steps // the first complete execution is the default schedule (or close to it)
		}
		switch x.Status {
		case "complete":
			if o.Check != nil {
				o.Check(x)
			}
		default:
			if o.OnAbnormal != nil && o.OnAbnormal(x) {
				return
			}
			switch x.Status {
			case "deadlock":
				c.Violation(o.Prop+"/deadlock/"+o.Name+"/"+blockedSig(x), "deadlock: "+x.Detail+" blocked="+strings.Join(x.Blocked, ","), x)
			case "panic":
				c.Violation(o.Prop+"/panic/"+o.Name+"/"+firstLine(x.PanicVal), "panic in scheduled thread: "+x.PanicVal+"\n"+trimStack(x.Stack), x)
			case "horizon":
				// An execution that needs more than ten times the steps of the scenario's default schedule
				// is not a long execution but one that does not end: a spin or a retry loop whose exit
				// condition can no longer become true (livelock). Anything closer to the default is only
				// reported as a cap (the horizon may simply be too small for the scenario).
				if baseSteps == 0 {
					// not even one execution of this scenario has come to an end so far
					hangs++
					c.Violation(o.Prop+"/livelock/"+o.Name, "the execution does not terminate within "+strconv.Itoa(x.Steps-1)+" scheduling steps, and no schedule of this scenario explored so far does; running threads: "+strings.Join(x.Blocked, ","), x)
				} else if x.Steps > 10*baseSteps {
					hangs++
					c.Violation(o.Prop+"/livelock/"+o.Name, "the execution does not terminate: more than "+strconv.Itoa(x.Steps-1)+" scheduling steps, the default schedule of this scenario takes "+strconv.Itoa(baseSteps)+"; running threads: "+strings.Join(x.Blocked, ","), x)
				} else {
					c.Cap("horizon:" + o.Name)
				}
			}
			if x.Status == "deadlock" {
				hangs++
			}
		}
	}
	if c.Spec.Replay != nil && (c.Spec.ReplayCase == "" || c.Spec.ReplayCase == o.Name) {
		x := vsched.Run(vsched.Config{Prefix: c.Spec.Replay, Horizon: c.Spec.Horizon, AtomicFilter: o.Atomic, Trace: true}, o.Body)
		c.Res.Execs++
		c.Res.Transitions += x.Steps
		if n := vsched.RaceErrors(); n > c.raceSeen {
			c.Res.RaceExecs = append(c.Res.RaceExecs, RaceExec{Case: o.Name, Choices: x.Choices(), N: n - c.raceSeen})
			c.raceSeen = n
		}
		c.Res.Samples = append(c.Res.Samples, map[string]any{"status": x.Status, "detail": x.Detail, "trace": x.Trace, "blocked": x.Blocked})
		judge(x)
		return
	}
	if c.Spec.Replay != nil {
		return
	}
	f := o.F
	if f == 0 {
		f = c.Spec.F
	}
	ex := &vsched.Explorer{K: k, E: e, F: f, Horizon: c.Spec.Horizon, Shard: c.Spec.Shard, NShards: c.Spec.NShards, Deadline: c.deadline, MaxExecs: c.Spec.MaxExecs, Atomic: o.Atomic}
	first := true
	err := ex.Explore(func(cfg vsched.Config) *vsched.Exec {
		cfg.Trace = first
		first = false
		x := vsched.Run(cfg, o.Body)
		// attribute new race reports to the execution during which they appeared (every
		// execution, also the re-runs that only regenerate children)
		if n := vsched.RaceErrors(); n > c.raceSeen {
			c.Res.RaceExecs = append(c.Res.RaceExecs, RaceExec{Case: o.Name, Choices: x.Choices(), N: n - c.raceSeen})
			c.raceSeen = n
		}
		return x
	}, func(x *vsched.Exec) bool {
		if x.Trace != nil {
			c.Sample(map[string]any{"scenario": o.Name, "default_schedule_trace": x.Trace, "status": x.Status})
		}
		judge(x)
		if hangs >= 8 {
			// every further schedule of a scenario that hangs costs a full horizon: enough has been seen
			c.Cap("stopped after 8 deadlocked / non-terminating executions:" + o.Name)
			return false
		}
		return !c.Stop
	})
	c.Res.Execs += ex.Execs
	c.Res.Owned += ex.Counted
	c.Res.Transitions += ex.Transitions
	c.Res.Decisions += ex.Decisions
	c.Res.States += ex.NewNodes
	if ex.MaxDepth > c.Res.MaxDepth {
		c.Res.MaxDepth = ex.MaxDepth
	}
	if ex.Capped != "" {
		c.Cap(ex.Capped + ":" + o.Name)
	}
	if err != nil && o.DivergenceIsCap != nil && strings.Contains(err.Error(), "nondeterminism") && o.DivergenceIsCap() {
		c.Cap("stopped at a worker resource limit (" + firstN(err.Error(), 80) + "):" + o.Name)
		c.Stop = true
		err = nil
	}
	if err != nil {
		c.Res.Error = err.Error()
		c.Stop = true
	}
	c.Res.Bounds["K"] = k
	c.Res.Bounds["E"] = e
	c.Res.Bounds["F"] = f
	c.Res.PerScenario = append(c.Res.PerScenario, ScenarioStat{Name: o.Name, K: k, E: e, Owned: ex.Counted, Execs: ex.Execs, DoneCost: ex.DoneCost, MaxDepth: ex.MaxDepth, WallS: time.Since(t0).Seconds()})
	runtime.GC()
}

func blockedSig(x *vsched.Exec) string {
	var parts []string
	for _, b := range x.Blocked {
		if i := strings.Index(b, "@"); i >= 0 {
			b = b[i+1:]
		}
		parts = append(parts, b)
	}
	sort.Strings(parts)
	return strings.Join(parts, ",")
}

func firstLine(s string) string {
	if i := strings.IndexByte(s, '\n'); i >= 0 {
		s = s[:i]
	}
	if len(s) > 120 {
		s = s[:120]
	}
	return s
}

func trimStack(s string) string {
	lines := strings.Split(s, "\n")
	var keep []string
	for _, l := range lines {
		if strings.Contains(l, "/repo/") || strings.Contains(l, "reservoir/") {
			keep = append(keep, strings.TrimSpace(l))
		}
		if len(keep) >= 16 {
			break
		}
	}
	return strings.Join(keep, "\n")
}

func firstN(s string, n int) string {
	if len(s) > n {
		return s[:n]
	}
	return s
}
