// Package vos is the file-system seam: the instrumented code calls vos.Create/Open/
// Remove/... instead of os.*. Calls are delegated to the real OS, logged, and can be
// made to fail by a fault plan (the n-th call, or a write after b bytes).
package vos

import (
	"errors"
	"io"
	"io/fs"
	"os"
	"sync"

	"reservoir/zzverif/vsched"
)

type Call struct {
	Seq  int    `json:"seq"`
	Op   string `json:"op"`
	Path string `json:"path"`
	Err  string `json:"err,omitempty"`
	N    int    `json:"n,omitempty"`
}

// Plan describes injected faults. FailCall: the call with that sequence number
// (counting every logged call from 0) fails with ErrInjected. WriteLimit >= 0: writes
// to files whose base name matches WritePath (or any file when empty) succeed for
// WriteLimit bytes in total and then fail.
type Plan struct {
	FailCall   int
	FailOp     string // if set, fail the FailCall-th call *of this op kind*
	WriteLimit int
	WritePath  string
}

var ErrInjected = errors.New("vos: injected I/O error")

var (
	mu      sync.Mutex
	log     []Call
	plan    = Plan{FailCall: -1, WriteLimit: -1}
	opCount = map[string]int{}
	written int
	logging bool
)

// Begin resets the log and installs a plan.
func Begin(p Plan) {
	lk()
	log = nil
	plan = p
	opCount = map[string]int{}
	written = 0
	logging = true
	ulk()
}

// NoPlan is the plan that injects nothing.
func NoPlan() Plan { return Plan{FailCall: -1, WriteLimit: -1} }

// End stops logging and returns the log.
func End() []Call {
	lk()
	defer ulk()
	l := log
	log = nil
	logging = false
	plan = NoPlan()
	return l
}

//go:norace
func record(op, path string) (fail bool) {
	// A file-system call is a scheduling point: the OS may run another thread at any system
	// call, and operations on files and handles conflict with each other (Close vs Read,
	// Rename vs Open) without any lock of the program being involved.
	vsched.Yield("fs:" + op)
	lk()
	defer ulk()
	if !logging {
		return false
	}
	seq := len(log)
	k := opCount[op]
	opCount[op] = k + 1
	if plan.FailCall >= 0 {
		if plan.FailOp == "" && plan.FailCall == seq {
			fail = true
		}
		if plan.FailOp == op && plan.FailCall == k {
			fail = true
		}
	}
	c := Call{Seq: seq, Op: op, Path: path}
	if fail {
		c.Err = "injected"
	}
	log = append(log, c)
	return fail
}

type File struct {
	*os.File
}

type FileInfo = fs.FileInfo

func wrap(f *os.File, err error) (*File, error) {
	if err != nil {
		return nil, err
	}
	return &File{File: f}, nil
}

func Create(name string) (*File, error) {
	if record("create", name) {
		return nil, &fs.PathError{Op: "open", Path: name, Err: ErrInjected}
	}
	return wrap(os.Create(name))
}

func Open(name string) (*File, error) {
	if record("open", name) {
		return nil, &fs.PathError{Op: "open", Path: name, Err: ErrInjected}
	}
	return wrap(os.Open(name))
}

func OpenFile(name string, flag int, perm os.FileMode) (*File, error) {
	if record("openfile", name) {
		return nil, &fs.PathError{Op: "open", Path: name, Err: ErrInjected}
	}
	return wrap(os.OpenFile(name, flag, perm))
}

func Remove(name string) error {
	if record("remove", name) {
		return &fs.PathError{Op: "remove", Path: name, Err: ErrInjected}
	}
	return os.Remove(name)
}

func RemoveAll(name string) error {
	if record("removeall", name) {
		return &fs.PathError{Op: "removeall", Path: name, Err: ErrInjected}
	}
	return os.RemoveAll(name)
}

func Stat(name string) (FileInfo, error) {
	if record("stat", name) {
		return nil, &fs.PathError{Op: "stat", Path: name, Err: ErrInjected}
	}
	return os.Stat(name)
}

func MkdirAll(name string, perm os.FileMode) error {
	if record("mkdirall", name) {
		return &fs.PathError{Op: "mkdir", Path: name, Err: ErrInjected}
	}
	return os.MkdirAll(name, perm)
}

func ReadFile(name string) ([]byte, error) {
	if record("readfile", name) {
		return nil, &fs.PathError{Op: "open", Path: name, Err: ErrInjected}
	}
	return os.ReadFile(name)
}

func WriteFile(name string, data []byte, perm os.FileMode) error {
	if record("writefile", name) {
		return &fs.PathError{Op: "open", Path: name, Err: ErrInjected}
	}
	return os.WriteFile(name, data, perm)
}

func Rename(oldpath, newpath string) error {
	if record("rename", oldpath) {
		return &os.LinkError{Op: "rename", Old: oldpath, New: newpath, Err: ErrInjected}
	}
	return os.Rename(oldpath, newpath)
}

func CreateTemp(dir, pattern string) (*File, error) {
	if record("createtemp", dir) {
		return nil, &fs.PathError{Op: "createtemp", Path: dir, Err: ErrInjected}
	}
	return wrap(os.CreateTemp(dir, pattern))
}

// Read, ReadAt, Seek and Close are scheduling points too (see record).
func (f *File) Read(p []byte) (int, error) {
	vsched.Yield("file:read")
	return f.File.Read(p)
}

func (f *File) ReadAt(p []byte, off int64) (int, error) {
	vsched.Yield("file:readat")
	return f.File.ReadAt(p, off)
}

func (f *File) Seek(offset int64, whence int) (int64, error) {
	vsched.Yield("file:seek")
	return f.File.Seek(offset, whence)
}

func (f *File) Close() error {
	vsched.Yield("file:close")
	return f.File.Close()
}

// WriteTo must not bypass Read (io.Copy prefers WriterTo).
func (f *File) WriteTo(w io.Writer) (int64, error) {
	buf := make([]byte, 32*1024)
	var total int64
	for {
		n, err := f.Read(buf)
		if n > 0 {
			m, werr := w.Write(buf[:n])
			total += int64(m)
			if werr != nil {
				return total, werr
			}
		}
		if err == io.EOF {
			return total, nil
		}
		if err != nil {
			return total, err
		}
	}
}

// Write applies the write-limit part of the plan.
//
//go:norace
func (f *File) Write(p []byte) (int, error) {
	vsched.Yield("file:write")
	lk()
	lim := plan.WriteLimit
	match := logging && lim >= 0 && (plan.WritePath == "" || plan.WritePath == baseName(f.Name()))
	var allow = len(p)
	if match {
		left := lim - written
		if left < 0 {
			left = 0
		}
		if allow > left {
			allow = left
		}
		written += allow
	}
	ulk()
	if !match || allow == len(p) {
		return f.File.Write(p)
	}
	n, err := f.File.Write(p[:allow])
	if err == nil {
		err = &fs.PathError{Op: "write", Path: f.Name(), Err: ErrInjected}
	}
	lk()
	log = append(log, Call{Seq: len(log), Op: "write-fail", Path: f.Name(), N: n, Err: "injected"})
	ulk()
	return n, err
}

// ReadFrom must not bypass Write (io.Copy prefers ReaderFrom).
func (f *File) ReadFrom(r io.Reader) (int64, error) {
	buf := make([]byte, 32*1024)
	var total int64
	for {
		n, err := r.Read(buf)
		if n > 0 {
			w, werr := f.Write(buf[:n])
			total += int64(w)
			if werr != nil {
				return total, werr
			}
		}
		if err != nil {
			if err == io.EOF {
				return total, nil
			}
			return total, err
		}
	}
}

func baseName(p string) string {
	for i := len(p) - 1; i >= 0; i-- {
		if p[i] == '/' {
			return p[i+1:]
		}
	}
	return p
}

// lk/ulk guard shim state only when real goroutines may run concurrently
// (passthrough mode). Under the scheduler one thread runs at a time, and taking a
// real mutex there would add happens-before edges that hide races from the race oracle.
//
//go:norace
func lk() {
	if vsched.Mode() == 0 {
		mu.Lock()
		locked = true
	}
}

//go:norace
func ulk() {
	if locked {
		locked = false
		mu.Unlock()
	}
}

var locked bool
