// Package vcrypto puts a scheduling point in front of the slow crypto calls of the code
// under test (key generation, entropy reads, certificate signing). These calls take
// milliseconds and read the OS entropy source, so they are exactly where a real
// scheduler switches threads; without a point the explorer could never place another
// thread between two of them.
package vcrypto

import (
	"crypto/ecdsa"
	"crypto/elliptic"
	"crypto/rand"
	"crypto/x509"
	"io"
	"math/big"

	"reservoir/zzverif/vsched"
)

func RandInt(r io.Reader, max *big.Int) (*big.Int, error) {
	vsched.Yield("crypto/rand.Int")
	return rand.Int(r, max)
}

func RandRead(b []byte) (int, error) {
	vsched.Yield("crypto/rand.Read")
	return rand.Read(b)
}

func X509CreateCertificate(r io.Reader, template, parent *x509.Certificate, pub, priv any) ([]byte, error) {
	vsched.Yield("x509.CreateCertificate")
	return x509.CreateCertificate(r, template, parent, pub, priv)
}

func EcdsaGenerateKey(c elliptic.Curve, r io.Reader) (*ecdsa.PrivateKey, error) {
	vsched.Yield("ecdsa.GenerateKey")
	return ecdsa.GenerateKey(c, r)
}
