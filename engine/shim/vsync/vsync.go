// Package vsync replaces sync.{Mutex,RWMutex,WaitGroup,Once} in the instrumented
// build. Without a scheduler every method delegates to the real primitive. Under
// the scheduler the state is kept in plain fields (only one thread runs at a time),
// acquisition is a scheduling point that is enabled only when it cannot block, and
// in race builds the happens-before edges of the real primitive are emitted.
package vsync

import (
	"sync"
	"unsafe"

	"reservoir/zzverif/vsched"
)

type Locker = sync.Locker

type Mutex struct {
	real   sync.Mutex
	locked bool
}

//go:norace
func (m *Mutex) Lock() {
	switch vsched.Mode() {
	case 0:
		m.real.Lock()
		return
	case 2:
		return
	}
	vsched.Point(vsched.KLock, uintptr(unsafe.Pointer(m)), "Mutex.Lock", m)
	m.locked = true
	raceAcquire(unsafe.Pointer(m))
}

//go:norace
func (m *Mutex) TryLock() bool {
	switch vsched.Mode() {
	case 0:
		return m.real.TryLock()
	case 2:
		return false
	}
	vsched.Point(vsched.KTryLock, uintptr(unsafe.Pointer(m)), "Mutex.TryLock", nil)
	if m.locked {
		return false
	}
	m.locked = true
	raceAcquire(unsafe.Pointer(m))
	return true
}

//go:norace
func (m *Mutex) Unlock() {
	switch vsched.Mode() {
	case 0:
		m.real.Unlock()
		return
	case 2:
		return
	}
	if !m.locked {
		panic("sync: unlock of unlocked mutex")
	}
	raceRelease(unsafe.Pointer(m))
	m.locked = false
}

// Enabled implements vsched.Enabler.
//
//go:norace
func (m *Mutex) Enabled(vsched.Kind) bool { return !m.locked }

// RWMutex mirrors sync.RWMutex including writer preference: once a writer has
// announced itself new readers wait and Try* fail.
type RWMutex struct {
	real    sync.RWMutex
	readers int
	writer  bool
	pending bool // a writer has announced itself and waits for the readers to leave
	rsem    byte // race-edge addresses, as in sync.RWMutex (readerSem / writerSem)
	wsem    byte
}

// Enabled implements vsched.Enabler.
//
//go:norace
func (m *RWMutex) Enabled(k vsched.Kind) bool {
	if k == vsched.KLockWait {
		return m.readers == 0
	}
	return !m.writer && !m.pending
}

//go:norace
func (m *RWMutex) Lock() {
	switch vsched.Mode() {
	case 0:
		m.real.Lock()
		return
	case 2:
		return
	}
	p := uintptr(unsafe.Pointer(m))
	vsched.Point(vsched.KLock, p, "RWMutex.Lock", m)
	if m.readers > 0 {
		m.pending = true
		vsched.Point(vsched.KLockWait, p, "RWMutex.Lock(wait readers)", m)
		m.pending = false
	}
	m.writer = true
	raceAcquire(unsafe.Pointer(&m.rsem))
	raceAcquire(unsafe.Pointer(&m.wsem))
}

//go:norace
func (m *RWMutex) TryLock() bool {
	switch vsched.Mode() {
	case 0:
		return m.real.TryLock()
	case 2:
		return false
	}
	vsched.Point(vsched.KTryLock, uintptr(unsafe.Pointer(m)), "RWMutex.TryLock", nil)
	if m.writer || m.pending || m.readers > 0 {
		return false
	}
	m.writer = true
	raceAcquire(unsafe.Pointer(&m.rsem))
	raceAcquire(unsafe.Pointer(&m.wsem))
	return true
}

//go:norace
func (m *RWMutex) Unlock() {
	switch vsched.Mode() {
	case 0:
		m.real.Unlock()
		return
	case 2:
		return
	}
	if !m.writer {
		panic("sync: Unlock of unlocked RWMutex")
	}
	raceRelease(unsafe.Pointer(&m.rsem))
	m.writer = false
}

//go:norace
func (m *RWMutex) RLock() {
	switch vsched.Mode() {
	case 0:
		m.real.RLock()
		return
	case 2:
		return
	}
	vsched.Point(vsched.KRLock, uintptr(unsafe.Pointer(m)), "RWMutex.RLock", m)
	m.readers++
	raceAcquire(unsafe.Pointer(&m.rsem))
}

//go:norace
func (m *RWMutex) TryRLock() bool {
	switch vsched.Mode() {
	case 0:
		return m.real.TryRLock()
	case 2:
		return false
	}
	vsched.Point(vsched.KTryLock, uintptr(unsafe.Pointer(m)), "RWMutex.TryRLock", nil)
	if m.writer || m.pending {
		return false
	}
	m.readers++
	raceAcquire(unsafe.Pointer(&m.rsem))
	return true
}

//go:norace
func (m *RWMutex) RUnlock() {
	switch vsched.Mode() {
	case 0:
		m.real.RUnlock()
		return
	case 2:
		return
	}
	if m.readers <= 0 {
		panic("sync: RUnlock of unlocked RWMutex")
	}
	raceReleaseMerge(unsafe.Pointer(&m.wsem))
	m.readers--
}

func (m *RWMutex) RLocker() Locker { return (*rlocker)(m) }

type rlocker RWMutex

func (r *rlocker) Lock()   { (*RWMutex)(r).RLock() }
func (r *rlocker) Unlock() { (*RWMutex)(r).RUnlock() }

type WaitGroup struct {
	real sync.WaitGroup
	n    int
}

//go:norace
func (w *WaitGroup) Add(d int) {
	switch vsched.Mode() {
	case 0:
		w.real.Add(d)
		return
	case 2:
		return
	}
	if d < 0 {
		raceReleaseMerge(unsafe.Pointer(w))
	}
	w.n += d
	if w.n < 0 {
		panic("sync: negative WaitGroup counter")
	}
}

func (w *WaitGroup) Done() { w.Add(-1) }

// Enabled implements vsched.Enabler.
//
//go:norace
func (w *WaitGroup) Enabled(vsched.Kind) bool { return w.n == 0 }

//go:norace
func (w *WaitGroup) Wait() {
	switch vsched.Mode() {
	case 0:
		w.real.Wait()
		return
	case 2:
		return
	}
	vsched.Point(vsched.KWGWait, uintptr(unsafe.Pointer(w)), "WaitGroup.Wait", w)
	raceAcquire(unsafe.Pointer(w))
}

func (w *WaitGroup) Go(f func()) {
	w.Add(1)
	vsched.Go(func() {
		defer w.Done()
		f()
	})
}

type Once struct {
	real  sync.Once
	state int // 0 not run, 1 running, 2 done
}

//go:norace
func (o *Once) Do(f func()) {
	switch vsched.Mode() {
	case 0:
		o.real.Do(f)
		return
	case 2:
		return
	}
	vsched.Point(vsched.KOnce, uintptr(unsafe.Pointer(o)), "Once.Do", o)
	if o.state == 2 {
		raceAcquire(unsafe.Pointer(o))
		return
	}
	o.state = 1
	defer o.finishDo()
	f()
}

//go:norace
func (o *Once) finishDo() {
	raceRelease(unsafe.Pointer(o))
	o.state = 2
}

// Enabled implements vsched.Enabler.
//
//go:norace
func (o *Once) Enabled(vsched.Kind) bool { return o.state != 1 }
