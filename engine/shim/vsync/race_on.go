//go:build race

package vsync

import (
	"runtime"
	"unsafe"
)

//go:norace
func raceAcquire(p unsafe.Pointer) { runtime.RaceAcquire(p) }

//go:norace
func raceRelease(p unsafe.Pointer) { runtime.RaceRelease(p) }

//go:norace
func raceReleaseMerge(p unsafe.Pointer) { runtime.RaceReleaseMerge(p) }
