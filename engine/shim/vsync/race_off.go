//go:build !race

package vsync

import "unsafe"

func raceAcquire(p unsafe.Pointer)      {}
func raceRelease(p unsafe.Pointer)      {}
func raceReleaseMerge(p unsafe.Pointer) {}
