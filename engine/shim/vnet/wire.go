package vnet

import (
	"bufio"
	"context"
	"io"
	"net"
	"net/http"
	"strings"
	"sync"
)

// WireOrigin is an origin that is reached through net/http's own Transport over in-memory
// connections: what the proxy puts on the wire is recorded byte for byte, and what comes back is
// written by hand. It complements Origin (a RoundTripper, which REPLACES the transport and so never
// sees what the transport itself adds, removes or decodes). Passthrough mode only.
type WireOrigin struct {
	mu sync.Mutex
	// Answer returns the raw bytes to send for a request (head and body exactly as they go on the wire).
	// closeAfter: end the connection after writing (a body delimited by the end of the connection,
	// or a transfer that breaks off).
	Answer func(req *http.Request, rawHead string) (raw string, closeAfter bool)
	Heads  []string // request heads as received (request line + header lines)
	Bodies []string
}

// Transport returns an *http.Transport whose every connection ends at this origin.
func (w *WireOrigin) Transport() *http.Transport {
	return &http.Transport{
		DisableKeepAlives: true,
		DialContext: func(ctx context.Context, network, addr string) (net.Conn, error) {
			c, s := net.Pipe()
			go w.serve(s)
			return c, nil
		},
		DialTLSContext: func(ctx context.Context, network, addr string) (net.Conn, error) {
			c, s := net.Pipe() // the scheme is not part of what these scenarios look at: no TLS on the pipe
			go w.serve(s)
			return c, nil
		},
	}
}

func (w *WireOrigin) serve(conn net.Conn) {
	defer conn.Close()
	br := bufio.NewReader(conn)
	for {
		// read the head verbatim
		var head strings.Builder
		for {
			line, err := br.ReadString('\n')
			if err != nil {
				return
			}
			head.WriteString(line)
			if line == "\r\n" || line == "\n" {
				break
			}
		}
		req, err := http.ReadRequest(bufio.NewReader(io.MultiReader(strings.NewReader(head.String()), br)))
		if err != nil {
			return
		}
		body, _ := io.ReadAll(req.Body)
		w.mu.Lock()
		w.Heads = append(w.Heads, head.String())
		w.Bodies = append(w.Bodies, string(body))
		answer := w.Answer
		w.mu.Unlock()
		raw, closeAfter := answer(req, head.String())
		io.WriteString(conn, raw)
		if closeAfter {
			return
		}
	}
}

// HeaderLines returns the header lines of a recorded head (without the request line), in order.
func HeaderLines(head string) []string {
	lines := strings.Split(strings.TrimRight(head, "\r\n"), "\r\n")
	if len(lines) > 0 {
		lines = lines[1:]
	}
	return lines
}
