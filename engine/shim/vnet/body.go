// Package vnet holds the closed-system environment shared by the harnesses:
// self-describing bodies, the scripted origin (an http.RoundTripper), in-memory
// clients and response writers.
package vnet

import (
	"fmt"
	"hash/fnv"
	"strconv"
)

const bodyAlphabet = "ABCDEFGHIJKLMNOPQRSTUVWXYZabcdefghijklmnopqrstuvwxyz0123456789"

// Body returns the n-byte body of resource r at version v. Byte i is a function of
// (r, v, i) only, so any slice identifies its offsets; bodies of 12 bytes or more
// start with the header "r|v|n|" and are therefore self-describing.
func Body(r string, v, n int) []byte {
	h := fnv.New32a()
	h.Write([]byte(r + "/" + strconv.Itoa(v))) // no fmt here: Body runs inside scheduled threads
	seed := int(h.Sum32() & 0x7fffffff)
	step := 1 + seed%7
	b := make([]byte, n)
	for i := range b {
		b[i] = bodyAlphabet[(seed+i*step+i/len(bodyAlphabet))%len(bodyAlphabet)]
	}
	hdr := r + "|" + strconv.Itoa(v) + "|" + strconv.Itoa(n) + "|"
	if n >= len(hdr)+4 {
		copy(b, hdr)
	}
	return b
}

// Candidate is one (resource, version, size) a harness has put in play.
type Candidate struct {
	R string
	V int
	N int
}

func (c Candidate) String() string { return fmt.Sprintf("%s/v%d/%dB", c.R, c.V, c.N) }

// Identify returns the candidate whose body equals b exactly, or a description of
// what b is instead (truncated / extended / spliced / foreign).
func Identify(b []byte, cands []Candidate) (Candidate, string) {
	for _, c := range cands {
		if string(Body(c.R, c.V, c.N)) == string(b) {
			return c, ""
		}
	}
	for _, c := range cands {
		full := Body(c.R, c.V, c.N)
		if len(b) < len(full) && string(full[:len(b)]) == string(b) {
			return Candidate{}, fmt.Sprintf("truncated: %d of %d bytes of %s", len(b), len(full), c)
		}
		if len(b) > len(full) && string(b[:len(full)]) == string(full) {
			return Candidate{}, fmt.Sprintf("extended: %s followed by %d foreign bytes", c, len(b)-len(full))
		}
	}
	// spliced: a prefix of one candidate and a suffix of another
	for _, c1 := range cands {
		f1 := Body(c1.R, c1.V, c1.N)
		p := 0
		for p < len(b) && p < len(f1) && b[p] == f1[p] {
			p++
		}
		if p == 0 {
			continue
		}
		for _, c2 := range cands {
			if c2 == c1 {
				continue
			}
			f2 := Body(c2.R, c2.V, c2.N)
			if len(b) <= len(f2) && string(f2[p:len(b)]) == string(b[p:]) {
				return Candidate{}, fmt.Sprintf("spliced: %d bytes of %s then bytes %d..%d of %s", p, c1, p, len(b), c2)
			}
		}
	}
	return Candidate{}, fmt.Sprintf("foreign body of %d bytes (%.40q)", len(b), string(b))
}

// IsSlice reports whether b is exactly bytes [start, start+len(b)) of c's body.
func IsSlice(b []byte, c Candidate, start int) bool {
	full := Body(c.R, c.V, c.N)
	if start < 0 || start+len(b) > len(full) {
		return false
	}
	return string(full[start:start+len(b)]) == string(b)
}
