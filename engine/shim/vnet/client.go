package vnet

import (
	"bufio"
	"bytes"
	"context"
	"crypto/tls"
	"errors"
	"io"
	"log"
	"net"
	"net/http"
	"strconv"
	"strings"
	"sync"
	"time"

	"reservoir/zzverif/vsched"
)

// Resp is what a client received for one request.
type Resp struct {
	Status   int         `json:"status"`
	Proto    string      `json:"proto,omitempty"`
	Header   http.Header `json:"header"`
	Body     string      `json:"body"`
	Err      string      `json:"err,omitempty"`       // transport-level problem: no/invalid response, truncated body
	Dropped  bool        `json:"dropped,omitempty"`   // connection closed without a single response byte
	Panic    string      `json:"panic,omitempty"`     // handler panic (recorder mode)
	RawFirst string      `json:"raw_first,omitempty"` // first bytes on the wire when unparsable
}

// ---- mode (i): the real http.Server over in-memory connections ----

type pipeListener struct {
	ch     chan net.Conn
	closed chan struct{}
	once   sync.Once
}

func (l *pipeListener) Accept() (net.Conn, error) {
	select {
	case c := <-l.ch:
		return c, nil
	case <-l.closed:
		return nil, errors.New("listener closed")
	}
}
func (l *pipeListener) Close() error   { l.once.Do(func() { close(l.closed) }); return nil }
func (l *pipeListener) Addr() net.Addr { return pipeAddr{} }

type pipeAddr struct{}

func (pipeAddr) Network() string { return "pipe" }
func (pipeAddr) String() string  { return "pipe" }

// PipeServer serves a handler with the real net/http server machinery over net.Pipe.
type PipeServer struct {
	srv *http.Server
	l   *pipeListener
}

func NewPipeServer(h http.Handler) *PipeServer {
	l := &pipeListener{ch: make(chan net.Conn), closed: make(chan struct{})}
	srv := &http.Server{Handler: h, ErrorLog: log.New(io.Discard, "", 0)}
	go srv.Serve(l)
	return &PipeServer{srv: srv, l: l}
}

func (p *PipeServer) Close() {
	ctx, cancel := context.WithTimeout(context.Background(), 2*time.Second)
	defer cancel()
	p.srv.Shutdown(ctx)
	p.l.Close()
}

// Dial opens a new client connection to the server.
func (p *PipeServer) Dial() net.Conn {
	c, s := net.Pipe()
	p.l.ch <- s
	return c
}

// safety deadline for client reads: a machinery watchdog, never an oracle.
// ioDeadline bounds one read or write on an in-memory connection. Healthy exchanges take micro- to
// milliseconds; the deadline only ends exchanges that would otherwise never end (a response that is
// never sent). It is generous because the sandbox may be saturated by other jobs: a violation must
// not depend on how busy the machine is.
const ioDeadline = 60 * time.Second

// HangLimit bounds one in-memory exchange outside the scheduler (see ServeRecorded).
var HangLimit = 60 * time.Second

// Do sends one raw request on a fresh connection and reads the response.
func (p *PipeServer) Do(raw string) *Resp {
	c := p.Dial()
	defer c.Close()
	return Exchange(c, bufio.NewReader(c), raw)
}

// Exchange writes raw on conn and parses one response from br.
func Exchange(conn net.Conn, br *bufio.Reader, raw string) *Resp {
	conn.SetDeadline(time.Now().Add(ioDeadline))
	method := "GET"
	if i := strings.IndexByte(raw, ' '); i > 0 {
		method = raw[:i]
	}
	werr := make(chan error, 1)
	go func() { _, err := io.WriteString(conn, raw); werr <- err }()
	resp, err := http.ReadResponse(br, &http.Request{Method: method})
	r := &Resp{Header: http.Header{}}
	if err != nil {
		r.Err = "no well-formed response: " + err.Error()
		if errors.Is(err, io.EOF) || errors.Is(err, io.ErrUnexpectedEOF) || strings.Contains(err.Error(), "closed pipe") {
			r.Dropped = true
		}
		if n := br.Buffered(); n > 0 {
			b, _ := br.Peek(min(n, 60))
			r.RawFirst = string(b)
			r.Dropped = false
		}
		return r
	}
	r.Status, r.Proto, r.Header = resp.StatusCode, resp.Proto, resp.Header
	if len(resp.TransferEncoding) > 0 {
		r.Header = r.Header.Clone()
		r.Header.Set("X-Verif-Transfer-Encoding", strings.Join(resp.TransferEncoding, ","))
	}
	body, berr := io.ReadAll(resp.Body)
	resp.Body.Close()
	r.Body = string(body)
	if berr != nil {
		r.Err = "body: " + berr.Error()
	}
	select {
	case <-werr:
	default:
	}
	return r
}

// DoPipelined writes all requests at once (HTTP/1.1 pipelining: the client does not wait for an
// answer before sending the next request) and then reads one response per request, in order.
func (t *Tunnel) DoPipelined(raws []string) []*Resp {
	t.conn.SetDeadline(time.Now().Add(ioDeadline))
	go func() { io.WriteString(t.tls, strings.Join(raws, "")) }()
	out := make([]*Resp, 0, len(raws))
	for _, raw := range raws {
		method := "GET"
		if i := strings.IndexByte(raw, ' '); i > 0 {
			method = raw[:i]
		}
		t.conn.SetDeadline(time.Now().Add(ioDeadline))
		resp, err := http.ReadResponse(t.br, &http.Request{Method: method})
		r := &Resp{Header: http.Header{}}
		if err != nil {
			r.Err = "no well-formed response: " + err.Error()
			out = append(out, r)
			// the stream is out of step from here on: the remaining requests get no answer either
			for len(out) < len(raws) {
				out = append(out, &Resp{Header: http.Header{}, Err: "no response (an earlier exchange on the tunnel got none)"})
			}
			return out
		}
		r.Status, r.Proto, r.Header = resp.StatusCode, resp.Proto, resp.Header
		if len(resp.TransferEncoding) > 0 {
			r.Header = r.Header.Clone()
			r.Header.Set("X-Verif-Transfer-Encoding", strings.Join(resp.TransferEncoding, ","))
		}
		body, berr := io.ReadAll(resp.Body)
		resp.Body.Close()
		r.Body = string(body)
		if berr != nil {
			r.Err = "body: " + berr.Error()
		}
		out = append(out, r)
	}
	return out
}

// ---- mode (ii): an in-memory ResponseWriter so that the exchange stays on the calling thread ----

// Recorder mimics the parts of net/http's response writer that the properties observe:
// header snapshot at the first write, the WriteHeader code check (net/http panics on an
// invalid code), Content-Length enforcement and no body for HEAD.
type Recorder struct {
	hdr        http.Header
	snap       http.Header
	status     int
	wrote      bool
	body       bytes.Buffer
	head       bool
	cl         int64
	writeErr   error
	hijackConn net.Conn
	Hijacked   bool
	FailAfter  int // >=0: client hung up, writes fail after that many body bytes
	SlowReader bool
}

func NewRecorder(method string) *Recorder {
	return &Recorder{hdr: http.Header{}, head: method == "HEAD", cl: -1, FailAfter: -1}
}

func (r *Recorder) Header() http.Header { return r.hdr }

func (r *Recorder) WriteHeader(code int) {
	if r.wrote {
		return
	}
	if code < 100 || code > 999 {
		panic("invalid WriteHeader code " + strconv.Itoa(code))
	}
	r.wrote = true
	r.status = code
	r.snap = r.hdr.Clone()
	if v := r.snap.Get("Content-Length"); v != "" {
		if n, err := strconv.ParseInt(v, 10, 64); err == nil {
			r.cl = n
		}
	}
}

func (r *Recorder) Write(p []byte) (int, error) {
	if !r.wrote {
		r.WriteHeader(200)
	}
	if r.SlowReader {
		vsched.Yield("client reads a chunk") // a slow client: other threads may run between chunks
	}
	if r.status == 204 || r.status == 304 || r.status < 200 {
		return 0, http.ErrBodyNotAllowed
	}
	if r.FailAfter >= 0 && r.body.Len()+len(p) > r.FailAfter {
		n := r.FailAfter - r.body.Len()
		if n < 0 {
			n = 0
		}
		r.body.Write(p[:n])
		return n, errors.New("client connection closed")
	}
	if r.cl >= 0 && int64(r.body.Len()+len(p)) > r.cl {
		r.writeErr = http.ErrContentLength
		return 0, http.ErrContentLength
	}
	if r.head {
		return len(p), nil
	}
	return r.body.Write(p)
}

// Hijack hands out one end of an in-memory connection (CONNECT).
func (r *Recorder) Hijack() (net.Conn, *bufio.ReadWriter, error) {
	if r.hijackConn == nil {
		return nil, nil, errors.New("hijack not available")
	}
	r.Hijacked = true
	return r.hijackConn, bufio.NewReadWriter(bufio.NewReader(r.hijackConn), bufio.NewWriter(r.hijackConn)), nil
}

func (r *Recorder) SetHijackConn(c net.Conn) { r.hijackConn = c }

// Result converts the recording into a Resp, flagging what a real client would see.
func (r *Recorder) Result() *Resp {
	out := &Resp{Status: r.status, Header: r.snap, Body: r.body.String()}
	if !r.wrote {
		// net/http answers 200 with the headers set so far and an empty body when a handler
		// returns without writing anything.
		out.Status = 200
		out.Header = r.hdr.Clone()
		if v := out.Header.Get("Content-Length"); v != "" && v != "0" && !r.head {
			// the server would send the declared length, get nothing and cut the connection
			out.Err = "declared Content-Length " + v + " but wrote 0 bytes (the server would cut the connection)"
		}
		return out
	}
	if r.writeErr != nil {
		out.Err = "handler wrote more than the declared Content-Length"
	} else if r.cl >= 0 && !r.head && r.status != 204 && r.status != 304 && int64(r.body.Len()) != r.cl {
		out.Err = "declared Content-Length " + strconv.FormatInt(r.cl, 10) + " but wrote " + strconv.Itoa(r.body.Len()) + " bytes (the server would cut the connection)"
	}
	return out
}

// ServeRecorded parses raw the way the server would and calls h on the calling
// goroutine; a handler panic is caught and reported as a dropped connection, which is
// what net/http's recovery does.
func ServeRecorded(h http.Handler, raw string, ctx context.Context, rec *Recorder) *Resp {
	req, err := http.ReadRequest(bufio.NewReader(strings.NewReader(raw)))
	if err != nil {
		return &Resp{Status: 400, Header: http.Header{}, Err: "server would answer 400: " + err.Error()}
	}
	if ctx != nil {
		req = req.WithContext(ctx)
	}
	req.RemoteAddr = "pipe"
	if rec == nil {
		rec = NewRecorder(req.Method)
	}
	var pan any
	serve := func() {
		defer func() { pan = recover() }()
		h.ServeHTTP(rec, req)
	}
	if vsched.Mode() == 0 {
		// No scheduler, hence no step horizon: a handler that never returns (a spin, a lock that is never
		// released) would hang the whole check. Give it a minute of real time - exchanges take
		// microseconds - then report the hang as "no response" and leave the goroutine behind.
		done := make(chan struct{})
		go func() {
			defer close(done)
			serve()
		}()
		select {
		case <-done:
		case <-time.After(HangLimit):
			return &Resp{Header: http.Header{}, Dropped: true, Err: "the handler did not return within " + HangLimit.String() + " of real time (hang)"}
		}
	} else {
		serve()
	}
	res := rec.Result()
	if pan != nil {
		if pan == http.ErrAbortHandler {
			res.Err = "handler aborted"
		} else {
			res.Panic = panicString(pan)
			if !rec.wrote {
				res.Dropped = true
			}
		}
	}
	return res
}

func panicString(p any) string {
	switch v := p.(type) {
	case string:
		return v
	case error:
		return v.Error()
	}
	return "panic"
}

// ---- CONNECT client (passthrough mode: real goroutines on both ends of a pipe) ----

// Tunnel is an established CONNECT tunnel with TLS on top.
type Tunnel struct {
	conn net.Conn
	tls  *tls.Conn
	br   *bufio.Reader
}

// OpenTunnel sends CONNECT target over a fresh connection to the server, expects 200
// and performs a TLS handshake verifying the presented certificate with cfg.
func (p *PipeServer) OpenTunnel(target string, cfg *tls.Config) (*Tunnel, *Resp) {
	c := p.Dial()
	br := bufio.NewReader(c)
	r := Exchange(c, br, "CONNECT "+target+" HTTP/1.1\r\nHost: "+target+"\r\n\r\n")
	if r.Err != "" || r.Status != 200 {
		c.Close()
		return nil, r
	}
	c.SetDeadline(time.Now().Add(ioDeadline))
	tc := tls.Client(c, cfg)
	if err := tc.Handshake(); err != nil {
		c.Close()
		r.Err = "tls handshake: " + err.Error()
		return nil, r
	}
	return &Tunnel{conn: c, tls: tc, br: bufio.NewReader(tc)}, r
}

// OpenTunnelEager is OpenTunnel for a client that does not wait for the 200 before it goes on: the
// CONNECT request and the TLS ClientHello leave in one write (a client is free to do that, the bytes
// after the request's blank line belong to the tunnel). wait bounds the handshake.
func (p *PipeServer) OpenTunnelEager(target string, cfg *tls.Config, wait time.Duration) (*Tunnel, *Resp) {
	c := p.Dial()
	c.SetDeadline(time.Now().Add(wait))
	ec := &eagerConn{Conn: c, br: bufio.NewReader(c), head: []byte("CONNECT " + target + " HTTP/1.1\r\nHost: " + target + "\r\n\r\n")}
	tc := tls.Client(ec, cfg)
	if err := tc.Handshake(); err != nil {
		c.Close()
		r := &Resp{Header: http.Header{}, Status: ec.status, Err: "tls handshake: " + err.Error()}
		return nil, r
	}
	c.SetDeadline(time.Now().Add(ioDeadline))
	return &Tunnel{conn: c, tls: tc, br: bufio.NewReader(tc)}, &Resp{Header: http.Header{}, Status: ec.status}
}

// eagerConn prepends the CONNECT request to the first write and takes the proxy's answer to it off
// the front of what is read.
type eagerConn struct {
	net.Conn
	br     *bufio.Reader
	head   []byte
	sent   bool
	got    bool
	status int
}

func (e *eagerConn) Write(p []byte) (int, error) {
	if !e.sent {
		e.sent = true
		if _, err := e.Conn.Write(append(append([]byte{}, e.head...), p...)); err != nil {
			return 0, err
		}
		return len(p), nil
	}
	return e.Conn.Write(p)
}

func (e *eagerConn) Read(p []byte) (int, error) {
	if !e.got {
		resp, err := http.ReadResponse(e.br, &http.Request{Method: "CONNECT"})
		if err != nil {
			return 0, err
		}
		e.got, e.status = true, resp.StatusCode
		if resp.StatusCode != 200 {
			return 0, io.ErrUnexpectedEOF
		}
	}
	return e.br.Read(p)
}

// Do sends one raw request through the tunnel and reads its response.
func (t *Tunnel) Do(raw string) *Resp { return Exchange(t.tls, t.br, raw) }

func (t *Tunnel) State() tls.ConnectionState { return t.tls.ConnectionState() }

// Close does not wait for the peer to read the close_notify alert (crypto/tls would wait up to
// five seconds on a synchronous pipe whose other end is busy writing).
func (t *Tunnel) Close() {
	// the transport goes first: crypto/tls sets a five-second write deadline of its own for the
	// close_notify alert, which a peer that is itself blocked writing (an answer nobody asked for) never reads
	t.conn.Close()
	t.tls.Close()
}
