package vnet

import (
	"bytes"
	"errors"
	"io"
	"net/http"
	"strconv"
	"strings"
	"sync"
	"time"

	"reservoir/zzverif/vsched"
	"reservoir/zzverif/vtime"
)

// H is an ordered header list (name, value): order and repetition matter for C08.
type H [][2]string

func (h H) ToHeader() http.Header {
	out := http.Header{}
	for _, kv := range h {
		out.Add(kv[0], kv[1])
	}
	return out
}

// Res is one scripted origin resource.
type Res struct {
	Name    string // short id used in the self-describing body
	Version int
	Size    int
	Status  int // 0 = 200
	ETag    string
	LM      time.Time // zero = no Last-Modified
	Headers H         // further response headers (Cache-Control, Expires, Set-Cookie, ...)
	// Behaviour switches
	NoConditionals bool // ignore If-None-Match / If-Modified-Since
	SupportsRange  bool // answer Range with 206 / 416 (otherwise Range is ignored)
	Chunked        bool // send without Content-Length
	AbortAfter     int  // >=0: the body reader fails after that many bytes (origin transfer aborts)
	Force          int  // if non-zero, answer every request with this status (body "status <n>")
	ForceOnce      int  // like Force, but only for the next request (a transient origin error)
	NoDate         bool
	RawBody        []byte // if non-nil, used instead of the self-describing body
	Headers416     H      // if non-nil, a 416 answer carries these headers instead of Headers
	AbortOnce      int    // >=0 (with AbortOnceSet): only the next full transfer aborts after that many bytes
	AbortOnceSet   bool
	ETag304        string        // what a 304 answer prints as ETag: "" = the current ETag, "-" = no validator headers at all, else this value
	Headers304     H             // further headers a 304 answer carries (payload fields such as Content-Length / Content-Type that describe no body)
	DateSkew       time.Duration // the origin's clock relative to the proxy's: Date = now + DateSkew
	DialError      bool          // the origin cannot be reached: RoundTrip fails before a byte of the request is sent
}

// ReqRec is one request as the origin received it.
type ReqRec struct {
	Seq      int         `json:"seq"`
	Method   string      `json:"method"`
	Host     string      `json:"host"`
	URI      string      `json:"uri"` // escaped path + raw query, as received
	Header   http.Header `json:"header"`
	Body     string      `json:"body,omitempty"`
	Status   int         `json:"status"` // what the origin answered
	Resource string      `json:"resource,omitempty"`
	Version  int         `json:"version,omitempty"`
	Thread   int         `json:"thread"`
	Canceled bool        `json:"canceled,omitempty"`
	Scheme   string      `json:"scheme,omitempty"`
}

// Origin is the closed-system upstream: an http.RoundTripper over a resource table.
type Origin struct {
	Resources map[string]*Res // keyed by URI (escaped path, plus "?"+query if any)
	Log       []ReqRec
	// Gate, if set, is called (under the scheduler: a scheduling point) before a response
	// is produced; it lets a harness hold a response until other clients are in flight.
	Gate func(o *Origin, rec *ReqRec)
	// Custom, if set, may answer a request itself (return nil to fall through).
	Custom func(o *Origin, req *http.Request, rec *ReqRec) *http.Response
	// Sent lists every successful-looking answer (status, resource, version) in order.
	cands []Candidate
	// mu serialises the origin's state outside the scheduler (real goroutines: a handler left behind
	// by an exchange that timed out may still call the origin while the harness scripts the next case)
	mu sync.Mutex
}

func (o *Origin) lk() {
	if vsched.Mode() == 0 {
		o.mu.Lock()
	}
}

func (o *Origin) ulk() {
	if vsched.Mode() == 0 {
		o.mu.Unlock()
	}
}

func NewOrigin() *Origin { return &Origin{Resources: map[string]*Res{}} }

// Put registers (or replaces) a resource at uri.
func (o *Origin) Put(uri string, r *Res) *Res {
	o.lk()
	defer o.ulk()
	if r.AbortAfter == 0 {
		r.AbortAfter = -1
	}
	if r.Version == 0 {
		r.Version = 1
	}
	o.Resources[uri] = r
	o.noteCand(r)
	return r
}

func (o *Origin) noteCand(r *Res) {
	c := Candidate{R: r.Name, V: r.Version, N: r.Size}
	for _, x := range o.cands {
		if x == c {
			return
		}
	}
	o.cands = append(o.cands, c)
}

// Bump moves a resource to its next version (new body; new ETag/LM if it has them).
func (o *Origin) Bump(uri string) {
	o.lk()
	defer o.ulk()
	r := o.Resources[uri]
	r.Version++
	if r.ETag != "" {
		r.ETag = ETagFor(r.Name, r.Version)
	}
	if !r.LM.IsZero() {
		r.LM = r.LM.Add(time.Hour)
	}
	o.noteCand(r)
}

func ETagFor(name string, v int) string { return `"` + name + "-v" + strconv.Itoa(v) + `"` }

// Candidates returns every (resource, version, size) the origin has had on offer.
func (o *Origin) Candidates() []Candidate { return o.cands }

type abortReader struct {
	data  []byte
	pos   int
	after int
}

var ErrOriginAbort = errors.New("origin transfer aborted")
var ErrOriginUnreachable = errors.New("dial tcp: connection refused (scripted)")

func (a *abortReader) Read(p []byte) (int, error) {
	if a.pos >= a.after {
		return 0, ErrOriginAbort
	}
	n := copy(p, a.data[a.pos:a.after])
	a.pos += n
	return n, nil
}
func (a *abortReader) Close() error { return nil }

// RoundTrip implements http.RoundTripper.
func (o *Origin) RoundTrip(req *http.Request) (*http.Response, error) {
	o.lk()
	defer o.ulk()
	uri := req.URL.EscapedPath()
	if req.URL.RawQuery != "" {
		uri += "?" + req.URL.RawQuery
	}
	rec := ReqRec{Seq: len(o.Log), Method: req.Method, Host: req.URL.Host, URI: uri, Header: req.Header.Clone(), Thread: vsched.CurrentThread(), Scheme: req.URL.Scheme}
	if r, ok := o.Resources[uri]; ok && r.DialError {
		// like a real transport: the body is closed, not read, when the connection cannot be made
		if req.Body != nil {
			req.Body.Close()
		}
		rec.Status = -1
		o.Log = append(o.Log, rec)
		return nil, ErrOriginUnreachable
	}
	if req.Body != nil && req.Body != http.NoBody {
		b, _ := io.ReadAll(req.Body)
		rec.Body = string(b)
		req.Body.Close()
	}
	if len(req.TransferEncoding) > 0 {
		rec.Header.Set("X-Verif-Transfer-Encoding", strings.Join(req.TransferEncoding, ","))
	}
	if o.Gate != nil {
		o.Gate(o, &rec)
	}
	if err := req.Context().Err(); err != nil {
		rec.Canceled = true
		o.Log = append(o.Log, rec)
		return nil, err
	}
	var resp *http.Response
	if o.Custom != nil {
		resp = o.Custom(o, req, &rec)
	}
	if resp == nil {
		resp = o.respond(req, uri, &rec)
	}
	resp.Request = req
	rec.Status = resp.StatusCode
	o.Log = append(o.Log, rec)
	return resp, nil
}

// MakeResponse builds a response the way an HTTP/1.1 client would hand it over.
func MakeResponse(status int, h http.Header, body []byte, chunked bool, abortAfter int) *http.Response {
	resp := &http.Response{
		StatusCode: status, Status: strconv.Itoa(status) + " " + http.StatusText(status),
		Proto: "HTTP/1.1", ProtoMajor: 1, ProtoMinor: 1, Header: h,
	}
	if chunked {
		resp.ContentLength = -1
		resp.TransferEncoding = []string{"chunked"}
	} else {
		resp.ContentLength = int64(len(body))
		if _, ok := h["Content-Length"]; !ok && status != 304 && status != 204 {
			h.Set("Content-Length", strconv.Itoa(len(body)))
		}
	}
	if abortAfter >= 0 && abortAfter < len(body) {
		resp.Body = &abortReader{data: body, after: abortAfter}
	} else if len(body) == 0 {
		resp.Body = http.NoBody
	} else {
		resp.Body = io.NopCloser(bytes.NewReader(body))
	}
	return resp
}

// PutHost registers a resource that only the given host (as the proxy addresses it, lower case,
// with the port if any) serves at uri; it takes precedence over a host-less registration.
func (o *Origin) PutHost(host, uri string, r *Res) *Res {
	return o.Put("//"+host+uri, r)
}

func (o *Origin) respond(req *http.Request, uri string, rec *ReqRec) *http.Response {
	r, ok := o.Resources["//"+strings.ToLower(req.URL.Host)+uri]
	if !ok {
		r, ok = o.Resources[uri]
	}
	if !ok {
		h := http.Header{}
		h.Set("Content-Type", "text/plain")
		return MakeResponse(404, h, []byte("no such resource"), false, -1)
	}
	rec.Resource, rec.Version = r.Name, r.Version
	h := r.Headers.ToHeader()
	if !r.NoDate {
		h.Set("Date", vtime.Peek().Add(r.DateSkew).UTC().Format(http.TimeFormat))
	}
	if r.ETag != "" {
		h.Set("ETag", r.ETag)
	}
	if !r.LM.IsZero() {
		h.Set("Last-Modified", r.LM.UTC().Format(http.TimeFormat))
	}
	if r.ForceOnce != 0 {
		st := r.ForceOnce
		r.ForceOnce = 0
		return MakeResponse(st, h, []byte("status "+strconv.Itoa(st)), false, -1)
	}
	if r.Force != 0 {
		return MakeResponse(r.Force, h, []byte("status "+strconv.Itoa(r.Force)), false, -1)
	}
	status := r.Status
	if status == 0 {
		status = 200
	}
	body := r.RawBody
	if body == nil {
		body = Body(r.Name, r.Version, r.Size)
	}
	if status == 200 && !r.NoConditionals && (req.Method == "GET" || req.Method == "HEAD") {
		notMod := false
		if inm := req.Header.Get("If-None-Match"); inm != "" {
			notMod = r.ETag != "" && (inm == r.ETag || inm == "*" || strings.TrimPrefix(inm, "W/") == strings.TrimPrefix(r.ETag, "W/"))
		} else if ims := req.Header.Get("If-Modified-Since"); ims != "" {
			if t, err := http.ParseTime(ims); err == nil {
				ref := r.LM
				if ref.IsZero() {
					notMod = false
				} else {
					notMod = !ref.After(t)
				}
			}
		}
		if notMod {
			switch {
			case r.ETag304 == "-":
				h.Del("ETag")
				h.Del("Last-Modified")
			case r.ETag304 != "":
				h.Set("ETag", r.ETag304)
			}
			for _, kv := range r.Headers304 {
				h.Set(kv[0], kv[1])
			}
			return MakeResponse(304, h, nil, false, -1)
		}
	}
	if status == 200 && r.SupportsRange && req.Header.Get("Range") != "" {
		rg := req.Header.Get("Range")
		first, last, ok := parseSimpleRange(rg, len(body))
		if !ok {
			if r.Headers416 != nil {
				h = r.Headers416.ToHeader()
			}
			h.Set("Content-Range", "bytes */"+strconv.Itoa(len(body)))
			return MakeResponse(416, h, []byte("range not satisfiable"), false, -1)
		}
		h.Set("Content-Range", "bytes "+strconv.Itoa(first)+"-"+strconv.Itoa(last)+"/"+strconv.Itoa(len(body)))
		return MakeResponse(206, h, body[first:last+1], false, -1)
	}
	if req.Method == "HEAD" {
		if r.Chunked {
			// the origin does not know the length in advance: its HEAD answer has no Content-Length either
			resp := MakeResponse(status, h, nil, true, -1)
			return resp
		}
		h.Set("Content-Length", strconv.Itoa(len(body)))
		resp := MakeResponse(status, h, nil, false, -1)
		resp.ContentLength = int64(len(body))
		return resp
	}
	abort := r.AbortAfter
	if r.AbortOnceSet {
		abort = r.AbortOnce
		r.AbortOnceSet = false
	}
	return MakeResponse(status, h, body, r.Chunked, abort)
}

func parseSimpleRange(s string, n int) (int, int, bool) {
	if !strings.HasPrefix(s, "bytes=") || strings.Contains(s, ",") {
		return 0, 0, false
	}
	s = s[6:]
	i := strings.IndexByte(s, '-')
	if i < 0 {
		return 0, 0, false
	}
	if i == 0 {
		k, err := strconv.Atoi(s[1:])
		if err != nil || k <= 0 || n == 0 {
			return 0, 0, false
		}
		if k > n {
			k = n
		}
		return n - k, n - 1, true
	}
	first, err := strconv.Atoi(s[:i])
	if err != nil || first >= n {
		return 0, 0, false
	}
	last := n - 1
	if s[i+1:] != "" {
		l, err := strconv.Atoi(s[i+1:])
		if err != nil || l < first {
			return 0, 0, false
		}
		if l < last {
			last = l
		}
	}
	return first, last, true
}

// Install makes the origin the process-wide upstream (http.DefaultClient uses
// http.DefaultTransport when its own Transport is nil, which is how the proxy sends).
func (o *Origin) Install() {
	http.DefaultTransport = o
}
