// Package vtime is the virtual clock. Instrumented code calls vtime.Now/Since/Until/
// Sleep/NewTicker/... instead of the time package's; the clock starts at a fixed
// epoch and moves only when a harness advances it (plus an optional fixed tick per
// Now() call so that successive timestamps are distinct and ordered).
package vtime

import (
	"sync"
	"time"

	"reservoir/zzverif/vsched"
)

var Epoch = time.Date(2026, time.March, 1, 12, 0, 0, 0, time.UTC)

var (
	mu       sync.Mutex
	offset   time.Duration
	autoTick time.Duration
	tickers  []*Ticker
	timers   []*Timer
	realMode bool
)

// Reset puts the clock back to the epoch and forgets all tickers.
//
//go:norace
func Reset() {
	lk()
	offset = 0
	autoTick = 0
	tickers = nil
	timers = nil
	ulk()
}

// UseRealTime switches the shim to the real clock (used only by cross-validation runs).
func UseRealTime(b bool) { realMode = b }

// SetAutoTick makes every Now() call advance the clock by d.
//
//go:norace
func SetAutoTick(d time.Duration) { lk(); autoTick = d; ulk() }

//go:norace
func Now() time.Time {
	if realMode {
		return time.Now()
	}
	lk()
	offset += autoTick
	t := Epoch.Add(offset)
	ulk()
	if Local != nil {
		t = t.In(Local) // what time.Now() returns on a machine whose zone is not UTC
	}
	return t
}

// Local, when set, is the zone in which Now() reports the (same) instant: the code under test sees
// what it would see on a machine running in that zone.
var Local *time.Location

// Peek returns the current virtual time without ticking.
//
//go:norace
func Peek() time.Time {
	lk()
	t := Epoch.Add(offset)
	ulk()
	return t
}

func Since(t time.Time) time.Duration { return Now().Sub(t) }
func Until(t time.Time) time.Duration { return t.Sub(Now()) }

// Sleep advances the virtual clock (a sleeping thread is the only thing that makes
// time pass on its own in the closed system) and yields.
func Sleep(d time.Duration) {
	if realMode {
		time.Sleep(d)
		return
	}
	if d > 0 {
		Advance(d)
	}
	vsched.Yield("sleep")
}

type Ticker struct {
	C      <-chan time.Time
	c      chan time.Time
	period time.Duration
	next   time.Duration // offset at which it fires next
	stop   bool
	real   *time.Ticker
}

//go:norace
func NewTicker(d time.Duration) *Ticker {
	if d <= 0 {
		panic("non-positive interval for NewTicker")
	}
	if realMode {
		rt := time.NewTicker(d)
		return &Ticker{C: rt.C, real: rt}
	}
	c := make(chan time.Time, 1)
	lk()
	t := &Ticker{C: c, c: c, period: d, next: offset + d}
	tickers = append(tickers, t)
	ulk()
	return t
}

//go:norace
func (t *Ticker) Stop() {
	if t.real != nil {
		t.real.Stop()
		return
	}
	lk()
	t.stop = true
	ulk()
}

//go:norace
func (t *Ticker) Reset(d time.Duration) {
	if d <= 0 {
		panic("non-positive interval for Ticker.Reset")
	}
	if t.real != nil {
		t.real.Reset(d)
		return
	}
	lk()
	t.period = d
	t.next = offset + d
	t.stop = false
	ulk()
}

type Timer struct {
	C     <-chan time.Time
	c     chan time.Time
	at    time.Duration
	fired bool
	stop  bool
	fn    func()
}

//go:norace
func NewTimer(d time.Duration) *Timer {
	c := make(chan time.Time, 1)
	lk()
	t := &Timer{C: c, c: c, at: offset + d}
	timers = append(timers, t)
	ulk()
	return t
}

func After(d time.Duration) <-chan time.Time { return NewTimer(d).C }

//go:norace
func AfterFunc(d time.Duration, f func()) *Timer {
	lk()
	t := &Timer{at: offset + d, fn: f}
	timers = append(timers, t)
	ulk()
	return t
}

//go:norace
func (t *Timer) Stop() bool {
	lk()
	was := !t.fired && !t.stop
	t.stop = true
	ulk()
	return was
}

//go:norace
func (t *Timer) Reset(d time.Duration) bool {
	lk()
	was := !t.fired && !t.stop
	t.at = offset + d
	t.fired = false
	t.stop = false
	ulk()
	return was
}

func Tick(d time.Duration) <-chan time.Time { return NewTicker(d).C }

// Advance moves the virtual clock forward by d and fires every ticker and timer
// whose deadline has been reached (non-blocking send: a tick is dropped when the
// previous one has not been consumed, as the real ticker does).
//
//go:norace
func Advance(d time.Duration) {
	lk()
	offset += d
	now := Epoch.Add(offset)
	var fns []func()
	for _, t := range tickers {
		if t.stop {
			continue
		}
		for t.next <= offset {
			select {
			case t.c <- now:
			default:
			}
			t.next += t.period
		}
	}
	for _, t := range timers {
		if t.stop || t.fired || t.at > offset {
			continue
		}
		t.fired = true
		if t.fn != nil {
			fns = append(fns, t.fn)
		} else {
			select {
			case t.c <- now:
			default:
			}
		}
	}
	ulk()
	for _, f := range fns {
		vsched.Go(f)
	}
}

// Offset returns the time elapsed on the virtual clock since the epoch.
//
//go:norace
func Offset() time.Duration { lk(); defer ulk(); return offset }

// lk/ulk guard shim state only when real goroutines may run concurrently
// (passthrough mode). Under the scheduler one thread runs at a time, and taking a
// real mutex there would add happens-before edges that hide races from the race oracle.
//
//go:norace
func lk() {
	if vsched.Mode() == 0 {
		mu.Lock()
		locked = true
	}
}

//go:norace
func ulk() {
	if locked {
		locked = false
		mu.Unlock()
	}
}

var locked bool
