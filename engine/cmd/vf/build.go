package main

import (
	"crypto/sha256"
	"encoding/hex"
	"fmt"
	"io"
	"os"
	"os/exec"
	"path/filepath"
	"sort"
	"strings"
	"syscall"
	"time"

	"verif/instr"
)

var (
	repoDir  = envOr("VERIF_REPO", "/repo")
	verifDir = envOr("VERIF_DIR", "/verif")
	cacheDir = envOr("VF_CACHE", "/var/tmp/vf-cache")
)

func envOr(k, d string) string {
	if v := os.Getenv(k); v != "" {
		return v
	}
	return d
}

func goCmd() string {
	if p, err := exec.LookPath("go1.26"); err == nil {
		return p
	}
	return "go"
}

func goEnv() []string {
	return []string{"GOTOOLCHAIN=local", "GOPROXY=off", "GOSUMDB=off", "GOFLAGS=-mod=mod", "GONOSUMDB=*", "GONOSUMCHECK=1", "GOFLAGS=-mod=mod"}
}

// treeHash covers every input of the instrumented build: the Go sources and module
// files of the repository's working tree, and the engine's own sources.
func treeHash() (string, error) {
	h := sha256.New()
	var files []string
	add := func(root string, pred func(string) bool) error {
		return filepath.Walk(root, func(p string, info os.FileInfo, err error) error {
			if err != nil {
				return nil
			}
			if info.IsDir() {
				b := filepath.Base(p)
				if b == ".git" || b == "node_modules" || b == "var" || b == "frontend" {
					return filepath.SkipDir
				}
				return nil
			}
			if pred(p) {
				files = append(files, p)
			}
			return nil
		})
	}
	add(repoDir, func(p string) bool {
		return strings.HasSuffix(p, ".go") || strings.HasSuffix(p, "go.mod") || strings.HasSuffix(p, "go.sum") || strings.HasSuffix(p, ".sql")
	})
	add(filepath.Join(verifDir, "engine"), func(p string) bool { return strings.HasSuffix(p, ".go") || strings.HasSuffix(p, "go.mod") })
	sort.Strings(files)
	for _, f := range files {
		fmt.Fprintf(h, "%s\n", f)
		fh, err := os.Open(f)
		if err != nil {
			return "", err
		}
		io.Copy(h, fh)
		fh.Close()
	}
	return hex.EncodeToString(h.Sum(nil))[:20], nil
}

type build struct {
	dir     string
	overlay string
	binDir  string
	race    bool
}

func harnessPackages() []string {
	root := filepath.Join(verifDir, "engine", "harness")
	seen := map[string]bool{}
	filepath.Walk(root, func(p string, info os.FileInfo, err error) error {
		if err == nil && !info.IsDir() && strings.HasSuffix(p, "_test.go") {
			rel, _ := filepath.Rel(root, filepath.Dir(p))
			seen["./"+rel] = true
		}
		return nil
	})
	var out []string
	for k := range seen {
		out = append(out, k)
	}
	sort.Strings(out)
	return out
}

// prepare instruments the current working tree of the repository and builds the
// harness test binaries (cached by tree hash; the cache is only an optimisation).
func prepare(race bool, pkgs []string) (*build, error) {
	th, err := treeHash()
	if err != nil {
		return nil, err
	}
	os.MkdirAll(cacheDir, 0o755)
	dir := filepath.Join(cacheDir, th)
	lock, err := os.OpenFile(filepath.Join(cacheDir, th+".lock"), os.O_CREATE|os.O_RDWR, 0o644)
	if err != nil {
		return nil, err
	}
	defer lock.Close()
	syscall.Flock(int(lock.Fd()), syscall.LOCK_EX)
	defer syscall.Flock(int(lock.Fd()), syscall.LOCK_UN)

	if _, err := os.Stat(dir); err == nil {
		now := time.Now()
		os.Chtimes(dir, now, now) // mark as in use (see pruneCache)
	}
	b := &build{dir: dir, overlay: filepath.Join(dir, "overlay.json"), race: race}
	b.binDir = filepath.Join(dir, "bin")
	if race {
		b.binDir = filepath.Join(dir, "binrace")
	}
	if _, err := os.Stat(filepath.Join(dir, "instr.ok")); err != nil {
		os.RemoveAll(dir)
		t0 := time.Now()
		res, err := instr.Instrument(instr.Options{
			RepoDir: repoDir, OutDir: dir,
			ShimDir:    filepath.Join(verifDir, "engine", "shim"),
			HarnessDir: filepath.Join(verifDir, "engine", "harness"),
			GoCmd:      goCmd(), Env: goEnv(),
			ExtraPkgs: []string{"golang.org/x/sync/singleflight"},
		})
		if err != nil {
			return nil, fmt.Errorf("instrument: %v", err)
		}
		var rules []string
		for k, v := range res.Rewrites {
			rules = append(rules, fmt.Sprintf("%s=%d", k, v))
		}
		sort.Strings(rules)
		report := fmt.Sprintf("instrumented %d files in %.1fs: %s\n", res.Files, time.Since(t0).Seconds(), strings.Join(rules, ", "))
		for _, w := range res.Warnings {
			report += "warning: " + w + "\n"
		}
		os.WriteFile(filepath.Join(dir, "instr.ok"), []byte(report), 0o644)
		fmt.Fprint(os.Stderr, report)
		pruneCache(th)
	}
	// build the binaries that are missing
	os.MkdirAll(b.binDir, 0o755)
	var missing []string
	for _, p := range pkgs {
		if _, err := os.Stat(b.binary(p)); err != nil {
			missing = append(missing, p)
		}
	}
	if len(missing) > 0 {
		t0 := time.Now()
		args := []string{"test", "-c", "-tags", "verif", "-overlay", b.overlay, "-vet=off", "-o", b.binDir + "/"}
		if race {
			args = append(args, "-race")
		}
		args = append(args, missing...)
		cmd := exec.Command(goCmd(), args...)
		cmd.Dir = repoDir
		cmd.Env = append(os.Environ(), goEnv()...)
		out, err := cmd.CombinedOutput()
		if err != nil {
			return nil, fmt.Errorf("build of instrumented harness binaries failed: %v\n%s", err, out)
		}
		fmt.Fprintf(os.Stderr, "built %v (race=%v) in %.1fs\n", missing, race, time.Since(t0).Seconds())
	}
	return b, nil
}

func (b *build) binary(pkg string) string {
	name := filepath.Base(pkg)
	if name == "." {
		name = "reservoir" // the module's root package (package main)
	}
	return filepath.Join(b.binDir, name+".test")
}

// pruneCache removes build caches that have not been used for over an hour, beyond the eight
// most recently used ones. A cache directory's mtime is refreshed at every use (prepare), so a
// directory that another check is running from is never removed.
func pruneCache(keep string) {
	ents, _ := os.ReadDir(cacheDir)
	type e struct {
		name string
		t    time.Time
	}
	var dirs []e
	for _, x := range ents {
		if x.IsDir() && x.Name() != keep {
			if info, err := x.Info(); err == nil {
				dirs = append(dirs, e{x.Name(), info.ModTime()})
			}
		}
	}
	sort.Slice(dirs, func(i, j int) bool { return dirs[i].t.After(dirs[j].t) })
	for i, d := range dirs {
		if i >= 8 && time.Since(d.t) > time.Hour {
			os.RemoveAll(filepath.Join(cacheDir, d.name))
			os.Remove(filepath.Join(cacheDir, d.name+".lock"))
		}
	}
}
