// vf is the check driver: it instruments the current /repo working tree, builds the
// harness binaries, runs the scenarios of a check across worker processes, matches
// violations against known_findings.json, writes evidence and sets the exit code
// (0 held, 1 violation, 2 machinery error).
package main

import (
	"syscall"
	"crypto/sha256"
	"encoding/hex"
	"encoding/json"
	"flag"
	"fmt"
	"os"
	"os/exec"
	"path/filepath"
	"regexp"
	"runtime"
	"sort"
	"strconv"
	"strings"
	"sync"
	"time"
)

type spec struct {
	Scenario    string `json:"scenario"`
	Params      any    `json:"params,omitempty"`
	Tier        string `json:"tier"`
	K           int    `json:"k"`
	E           int    `json:"e"`
	F           int    `json:"f"`
	Horizon     int    `json:"horizon"`
	Shard       int    `json:"shard"`
	NShards     int    `json:"nshards"`
	DeadlineSec int    `json:"deadline_sec"`
	MaxExecs    int    `json:"max_execs"`
	Replay      []int  `json:"replay,omitempty"`
	ReplayCase  string `json:"replay_case,omitempty"`
	Trace       bool   `json:"trace,omitempty"`
	Seed        int64  `json:"seed"`
	Race        bool   `json:"race,omitempty"`
	Only        string `json:"only,omitempty"`
}

type scenarioStat struct {
	Name     string  `json:"name"`
	K        int     `json:"k"`
	E        int     `json:"e"`
	Owned    int     `json:"owned"`
	Execs    int     `json:"execs"`
	DoneCost int     `json:"done_cost"`
	MaxDepth int     `json:"max_depth"`
	WallS    float64 `json:"wall_s"`
}

type violation struct {
	Key      string   `json:"key"`
	Scenario string   `json:"scenario"`
	Case     string   `json:"case,omitempty"`
	Message  string   `json:"message"`
	Choices  []int    `json:"choices,omitempty"`
	Labels   []string `json:"labels,omitempty"`
	Trace    []string `json:"trace,omitempty"`
	Pre      int      `json:"preemptions,omitempty"`
	Count    int      `json:"count"`
}

type result struct {
	Scenario    string         `json:"scenario"`
	Shard       int            `json:"shard"`
	Execs       int            `json:"execs"`
	Owned       int            `json:"owned"`
	Transitions int            `json:"transitions"`
	Decisions   int            `json:"decisions"`
	States      int            `json:"states"`
	MaxDepth    int            `json:"max_depth"`
	Cases       int            `json:"cases"`
	Outcomes    map[string]int `json:"outcomes"`
	Violations  []*violation   `json:"violations"`
	Samples     []any          `json:"samples"`
	Capped      []string       `json:"capped,omitempty"`
	Error       string         `json:"error,omitempty"`
	Notes       []string       `json:"notes,omitempty"`
	WallS       float64        `json:"wall_s"`
	Bounds      map[string]any `json:"bounds,omitempty"`
	PerScenario []scenarioStat `json:"per_scenario,omitempty"`
	RaceExecs   []struct {
		Case    string `json:"case"`
		Choices []int  `json:"choices"`
		N       int    `json:"n"`
	} `json:"race_execs,omitempty"`
}

// run is one scenario invocation of a check.
type run struct {
	Pkg         string
	Scenario    string
	Params      any
	K, E        int
	F           int // budget for non-default choices at non-preemptive switches; 0 = default 1, <0 = unbounded
	Horizon     int
	Race        bool
	Workers     int // worker processes (default 16)
	DeadlineSec int
	MaxExecs    int
	Only        string // run only the scenario case whose name contains this (a fresh set of worker processes per case)
}

type known struct {
	Property string `json:"property"`
	ID       string `json:"id"`
	Match    string `json:"match"` // regular expression on the violation key
	What     string `json:"what"`
}

type knownFile struct {
	Known []known `json:"known"`
	Fixed []struct {
		Property string `json:"property"`
		Commit   string `json:"commit"`
		What     string `json:"what"`
	} `json:"fixed"`
}

func main() {
	if len(os.Args) < 2 {
		fmt.Fprintln(os.Stderr, "usage: vf check <id> [--tier quick|thorough] | vf replay <file> | vf instr | vf list")
		os.Exit(2)
	}
	switch os.Args[1] {
	case "check":
		fs := flag.NewFlagSet("check", flag.ExitOnError)
		tier := fs.String("tier", envOr("VERIF_TIER", "quick"), "quick or thorough")
		id := os.Args[2]
		fs.Parse(os.Args[3:])
		os.Exit(runCheck(id, *tier))
	case "replay":
		os.Exit(runReplay(os.Args[2]))
	case "instr":
		b, err := prepare(false, nil)
		if err != nil {
			fmt.Fprintln(os.Stderr, err)
			os.Exit(2)
		}
		rep, _ := os.ReadFile(filepath.Join(b.dir, "instr.ok"))
		fmt.Print(string(rep))
		fmt.Println(b.overlay)
	case "warm":
		// build every harness binary (normal and race) so that the checks start fast
		pk := harnessPackages()
		if _, err := prepare(false, pk); err != nil {
			fmt.Fprintln(os.Stderr, err)
			os.Exit(2)
		}
		if _, err := prepare(true, racePackages()); err != nil {
			fmt.Fprintln(os.Stderr, err)
			os.Exit(2)
		}
	case "manifest":
		writeManifest()
	case "runs-json":
		// property -> scenario names its check runs (any tier); used by lint_keys.py
		out := map[string][]string{}
		for _, c := range allChecks() {
			seen := map[string]bool{}
			for _, tier := range []string{"quick", "thorough"} {
				for _, r := range c.Runs(tier) {
					if !seen[r.Scenario] {
						seen[r.Scenario] = true
						out[c.ID] = append(out[c.ID], r.Scenario)
					}
				}
			}
		}
		b, _ := json.Marshal(out)
		fmt.Println(string(b))
	case "list":
		for _, c := range allChecks() {
			fmt.Println(c.ID, c.Title)
		}
	default:
		fmt.Fprintln(os.Stderr, "unknown subcommand", os.Args[1])
		os.Exit(2)
	}
}

// scratchBase prefers a memory-backed file system: the file-cache scenarios create and
// remove a directory per execution.
func scratchBase() string {
	if d := os.Getenv("VF_SCRATCH_BASE"); d != "" {
		return d
	}
	if f, err := os.CreateTemp("/dev/shm", "vf-probe-"); err == nil {
		f.Close()
		os.Remove(f.Name())
		return "/dev/shm"
	}
	return "/var/tmp"
}

func seed() int64 {
	n, _ := strconv.ParseInt(os.Getenv("VERIF_SEED"), 10, 64)
	return n
}

type runOutcome struct {
	run     run
	results []*result
	err     error
	wall    float64
}

func execRun(b *build, r run, tier string, scratch string, idx int) runOutcome {
	out := runOutcome{run: r}
	t0 := time.Now()
	workers := r.Workers
	if workers <= 0 {
		workers = runtime.NumCPU()
	}
	var wg sync.WaitGroup
	results := make([]*result, workers)
	errs := make([]error, workers)
	for w := 0; w < workers; w++ {
		w := w
		wg.Add(1)
		go func() {
			defer wg.Done()
			wdir := filepath.Join(scratch, fmt.Sprintf("r%d_w%d", idx, w))
			os.MkdirAll(wdir, 0o755)
			f := r.F
			if f == 0 {
				f = 1
			}
			sp := spec{Scenario: r.Scenario, Params: r.Params, Tier: tier, K: r.K, E: r.E, F: f, Horizon: r.Horizon, Shard: w, NShards: workers, DeadlineSec: r.DeadlineSec, MaxExecs: r.MaxExecs, Seed: seed(), Race: r.Race, Only: firstNonEmpty(r.Only, os.Getenv("VF_ONLY"))}
			results[w], errs[w] = runWorker(b, r.Pkg, sp, wdir)
		}()
	}
	wg.Wait()
	for w := range results {
		if errs[w] != nil {
			out.err = errs[w]
			break
		}
		out.results = append(out.results, results[w])
	}
	out.wall = time.Since(t0).Seconds()
	return out
}

func runWorker(b *build, pkg string, sp spec, wdir string) (*result, error) {
	specPath := filepath.Join(wdir, "spec.json")
	outPath := filepath.Join(wdir, "out.json")
	sb, _ := json.Marshal(sp)
	os.WriteFile(specPath, sb, 0o644)
	os.Remove(outPath)
	limit := 3600
	if sp.DeadlineSec > 0 {
		limit = sp.DeadlineSec*2 + 120
	}
	cmd := exec.Command(b.binary(pkg), "-test.run", "^TestVF$", "-test.timeout", "0", "-test.count", "1")
	cmd.Dir = wdir
	cmd.Env = append(os.Environ(), "VF_SPEC="+specPath, "VF_OUT="+outPath, "VF_SCRATCH="+wdir, "GOMAXPROCS=2", "GORACE=halt_on_error=0 log_path="+filepath.Join(wdir, "race")+" history_size=5", "GOTRACEBACK=all")
	var logb strings.Builder
	cmd.Stdout = &logb
	cmd.Stderr = &logb
	if err := cmd.Start(); err != nil {
		return nil, err
	}
	done := make(chan error, 1)
	go func() { done <- cmd.Wait() }()
	var werr error
	hard := time.After(time.Duration(limit) * time.Second)
	tick := time.NewTicker(10 * time.Second)
	defer tick.Stop()
	lastCPU, lastChange := cpuTicks(cmd.Process.Pid), time.Now()
wait:
	for {
		select {
		case werr = <-done:
			break wait
		case <-tick.C:
			// A worker whose threads are blocked outside the scheduler (a lock of an uninstrumented package
			// that is never released, e.g. database/sql's after a panic in a Scanner) uses no CPU and never
			// ends: the explorer cannot see that hang, so it is detected here. The longest legitimate
			// real-time wait of a harness is one minute.
			if cur := cpuTicks(cmd.Process.Pid); cur != lastCPU {
				lastCPU, lastChange = cur, time.Now()
			} else if time.Since(lastChange) > stallLimit {
				cmd.Process.Signal(syscall.SIGQUIT) // goroutine dump on stderr
				select {
				case <-done:
				case <-time.After(20 * time.Second):
					cmd.Process.Kill()
					<-done
				}
				msg := fmt.Sprintf("the worker for %s made no progress for %s (no CPU time used, not at a scheduling point): code under test is blocked outside the scheduler and would never return. Goroutines blocked in reservoir code:\n%s", sp.Scenario, stallLimit, blockedFrames(logb.String()))
				v := &violation{Key: currentCheckID + "/hang/" + sp.Scenario + "/blocked-outside-the-scheduler", Scenario: sp.Scenario, Message: msg, Count: 1}
				return &result{Scenario: sp.Scenario, Shard: sp.Shard, Outcomes: map[string]int{}, Violations: []*violation{v}, Capped: []string{"worker stopped: blocked outside the scheduler"}}, nil
			}
		case <-hard:
			cmd.Process.Kill()
			<-done
			return nil, fmt.Errorf("worker for %s exceeded its hard limit of %ds", sp.Scenario, limit)
		}
	}
	ob, rerr := os.ReadFile(outPath)
	if rerr != nil {
		return nil, fmt.Errorf("worker for %s produced no result (exit: %v)\n%s", sp.Scenario, werr, tail(logb.String(), 4000))
	}
	var res result
	if err := json.Unmarshal(ob, &res); err != nil {
		return nil, err
	}
	if res.Error != "" {
		return nil, fmt.Errorf("worker for %s: %s", sp.Scenario, res.Error)
	}
	// race reports of this worker
	if sp.Race {
		files, _ := filepath.Glob(filepath.Join(wdir, "race.*"))
		if os.Getenv("VF_VERBOSE") != "" {
			fmt.Fprintf(os.Stderr, "  race logs in %s: %v (worker exit: %v)\n", wdir, files, werr)
		}
		idx := 0
		for _, f := range files {
			txt, _ := os.ReadFile(f)
			for _, rp := range parseRaceReports(string(txt)) {
				if rp.skip {
					idx++
					continue
				}
				v := &violation{Key: "C15/race/" + rp.key, Scenario: sp.Scenario, Message: rp.text, Count: 1}
				// the idx-th report belongs to the execution whose RaceErrors() increment covers it
				seen := 0
				for _, re := range res.RaceExecs {
					if idx < seen+re.N {
						v.Case, v.Choices = re.Case, re.Choices
						if v.Choices == nil {
							v.Choices = []int{}
						}
						break
					}
					seen += re.N
				}
				idx++
				res.Violations = append(res.Violations, v)
			}
		}
	}
	return &res, nil
}

// stallLimit: how long a worker may go without using any CPU time before it counts as hung.
var stallLimit = 5 * time.Minute

// currentCheckID: the check whose runs are being executed (one per vf process).
var currentCheckID string

// cpuTicks returns utime+stime of a process in clock ticks (0 if it cannot be read).
func cpuTicks(pid int) int64 {
	b, err := os.ReadFile(fmt.Sprintf("/proc/%d/stat", pid))
	if err != nil {
		return 0
	}
	s := string(b)
	if i := strings.LastIndexByte(s, ')'); i >= 0 {
		s = s[i+1:]
	}
	f := strings.Fields(s)
	if len(f) < 13 {
		return 0
	}
	u, _ := strconv.ParseInt(f[11], 10, 64)
	t, _ := strconv.ParseInt(f[12], 10, 64)
	return u + t
}

// blockedFrames extracts, from a goroutine dump, the first frame in reservoir (non-harness) code of every goroutine.
func blockedFrames(dump string) string {
	var out []string
	seen := map[string]bool{}
	for _, g := range strings.Split(dump, "\n\ngoroutine ")[1:] {
		lines := strings.Split(g, "\n")
		state := lines[0]
		for i := 1; i+1 < len(lines); i += 2 {
			fn := strings.TrimSpace(lines[i])
			if strings.HasPrefix(fn, "reservoir/") && !strings.HasPrefix(fn, "reservoir/zzverif/") && !strings.Contains(lines[i+1], "zz_verif_") {
				loc := strings.TrimSpace(lines[i+1])
				if k := strings.Index(loc, " +0x"); k > 0 {
					loc = loc[:k]
				}
				if j := strings.Index(state, "["); j >= 0 {
					state = state[j:]
				}
				line := "  " + strings.TrimSuffix(state, ":") + " " + fn + " (" + filepath.Base(loc) + ")"
				if !seen[line] {
					seen[line] = true
					out = append(out, line)
				}
				break
			}
		}
	}
	if len(out) > 12 {
		out = out[:12]
	}
	return strings.Join(out, "\n")
}

func tail(s string, n int) string {
	if len(s) > n {
		return "..." + s[len(s)-n:]
	}
	return s
}

func loadKnown() knownFile {
	var kf knownFile
	b, err := os.ReadFile(filepath.Join(verifDir, "known_findings.json"))
	if err == nil {
		json.Unmarshal(b, &kf)
	}
	return kf
}

func runCheck(id, tier string) int {
	t0 := time.Now()
	var def *checkDef
	for _, c := range allChecks() {
		if c.ID == id {
			def = c
		}
	}
	if def == nil {
		fmt.Fprintln(os.Stderr, "unknown check", id)
		return 2
	}
	currentCheckID = def.ID
	if n, err := strconv.Atoi(os.Getenv("VF_STALL_SEC")); err == nil && n > 0 { // development aid
		stallLimit = time.Duration(n) * time.Second
	}
	runs := def.Runs(tier)
	if want := os.Getenv("VF_SCENARIO"); want != "" { // development aid: only the runs of one scenario
		var kept []run
		for _, r := range runs {
			if r.Scenario == want {
				kept = append(kept, r)
			}
		}
		runs = kept
	}
	pkgsNormal, pkgsRace := map[string]bool{}, map[string]bool{}
	for _, r := range runs {
		if r.Race {
			pkgsRace[r.Pkg] = true
		} else {
			pkgsNormal[r.Pkg] = true
		}
	}
	keys := func(m map[string]bool) []string {
		var o []string
		for k := range m {
			o = append(o, k)
		}
		sort.Strings(o)
		return o
	}
	var bn, br *build
	var err error
	if len(pkgsNormal) > 0 {
		if bn, err = prepare(false, keys(pkgsNormal)); err != nil {
			fmt.Fprintln(os.Stderr, "MACHINERY-ERROR:", err)
			return 2
		}
	}
	if len(pkgsRace) > 0 {
		if br, err = prepare(true, keys(pkgsRace)); err != nil {
			fmt.Fprintln(os.Stderr, "MACHINERY-ERROR:", err)
			return 2
		}
	}
	scratch, err := os.MkdirTemp(scratchBase(), "vf-run-")
	if err != nil {
		fmt.Fprintln(os.Stderr, err)
		return 2
	}
	if os.Getenv("VF_KEEP") == "" {
		defer os.RemoveAll(scratch)
	} else {
		fmt.Fprintln(os.Stderr, "keeping scratch", scratch)
	}

	var all []*result
	var outcomes []runOutcome
	for i, r := range runs {
		b := bn
		if r.Race {
			b = br
		}
		o := execRun(b, r, tier, scratch, i)
		if o.err != nil {
			fmt.Fprintln(os.Stderr, "MACHINERY-ERROR:", o.err)
			return 2
		}
		outcomes = append(outcomes, o)
		all = append(all, o.results...)
		fmt.Fprintf(os.Stderr, "[%s] %s %s: %.1fs\n", id, r.Pkg, r.Scenario, o.wall)
	}

	// aggregate
	kf := loadKnown()
	vio := map[string]*violation{}
	ev := evidence{PropertyID: id, Tier: tier, Seed: seed(), Level: def.Level, Assumptions: def.Assumptions}
	cov := map[string]any{}
	outcomesSeen := map[string]bool{}
	var execs, transitions, decisions, cases, maxDepth int
	var capped []string
	var samples []any
	var notes []string
	vioRun := map[string]int{}
	for oi, o := range outcomes {
		for _, res := range o.results {
			for _, v := range res.Violations {
				if _, ok := vioRun[v.Key]; !ok {
					vioRun[v.Key] = oi
				}
			}
		}
	}
	for _, res := range all {
		execs += res.Owned
		if res.Owned == 0 {
			execs += 0
		}
		transitions += res.Transitions
		decisions += res.Decisions
		cases += res.Cases
		if res.MaxDepth > maxDepth {
			maxDepth = res.MaxDepth
		}
		for k := range res.Outcomes {
			outcomesSeen[k] = true
		}
		for _, v := range res.Violations {
			if old, ok := vio[v.Key]; ok {
				old.Count += v.Count
				if len(v.Choices) > 0 && (len(old.Choices) == 0 || v.Pre < old.Pre) {
					v.Count = old.Count
					vio[v.Key] = v
				}
			} else {
				vio[v.Key] = v
			}
		}
		capped = append(capped, res.Capped...)
		if len(samples) < 8 {
			samples = append(samples, res.Samples...)
		}
		notes = append(notes, res.Notes...)
	}
	if len(samples) > 8 {
		samples = samples[:8]
	}
	totalExecs := 0
	for _, res := range all {
		totalExecs += res.Execs
	}
	sort.Strings(capped)
	capped = uniq(capped)

	vkeys := make([]string, 0, len(vio))
	for k := range vio {
		vkeys = append(vkeys, k)
	}
	sort.Strings(vkeys)
	nViol := 0
	maxPrinted := 15
	if n, err := strconv.Atoi(os.Getenv("VF_MAX_PRINT")); err == nil {
		maxPrinted = n
	}
	var knownSeen []string
	exit := 0
	for _, k := range vkeys {
		v := vio[k]
		prop := id
		if i := strings.Index(k, "/"); i > 0 && regexp.MustCompile(`^C[0-9]+$`).MatchString(k[:i]) {
			prop = k[:i]
		}
		if prop != id && !def.Owns(prop) {
			// a violation of another property observed by a shared harness: it is that
			// property's check that reports it.
			if os.Getenv("VF_VERBOSE") != "" || os.Getenv("VF_SHOW_FOREIGN") != "" {
				fmt.Fprintf(os.Stderr, "  (left to %s's check: %s)\n", prop, k)
			}
			continue
		}
		matched := false
		for _, kn := range kf.Known {
			if kn.Property != prop {
				continue
			}
			if re, err := regexp.Compile(kn.Match); err == nil && re.MatchString(k) {
				matched = true
				line := fmt.Sprintf("KNOWN-FINDING: property=%s %s [%s]", prop, kn.What, kn.ID)
				if !contains(knownSeen, line) {
					knownSeen = append(knownSeen, line)
				}
				break
			}
		}
		if matched {
			continue
		}
		nViol++
		exit = 1
		if nViol > maxPrinted {
			continue
		}
		// A schedule-dependent violation is believed only if its recorded schedule fails again,
		// twice, in fresh processes (the same schedule must fail every time).
		if len(v.Choices) > 0 && v.Case != "" && os.Getenv("VF_NO_REPLAY") == "" {
			r := outcomes[vioRun[k]].run
			b := bn
			if r.Race {
				b = br
			}
			// Race reports are the exception: the detector's view of one execution is not fully
			// deterministic (in race builds sync.Pool drops items at random, and the pools inside
			// fmt / net/http add or remove happens-before edges between threads accordingly), so a
			// real race can go unreported in a given replay. A race report is concrete evidence by
			// itself; it is replayed up to six times and the first reproduction is enough.
			isRace := strings.Contains(k, "/race/")
			attempts, need := 2, 2
			if isRace {
				attempts, need = 6, 1
			}
			got := 0
			for attempt := 1; attempt <= attempts && got < need; attempt++ {
				wdir := filepath.Join(scratch, fmt.Sprintf("replay_%d_%d", nViol, attempt))
				os.MkdirAll(wdir, 0o755)
				f := r.F
				if f == 0 {
					f = 1
				}
				sp := spec{Scenario: r.Scenario, Params: r.Params, Tier: tier, K: r.K, E: r.E, F: f, Horizon: r.Horizon, NShards: 1, Replay: v.Choices, ReplayCase: v.Case, Trace: true, Race: r.Race}
				res, err := runWorker(b, r.Pkg, sp, wdir)
				reproduced := false
				if err == nil {
					for _, rv := range res.Violations {
						if rv.Key == v.Key {
							reproduced = true
						}
					}
				}
				if reproduced {
					got++
				} else if !isRace {
					fmt.Fprintf(os.Stderr, "MACHINERY-ERROR: violation %s was not reproduced when its recorded schedule was replayed (attempt %d, err=%v): not reported as a verdict\n", v.Key, attempt, err)
					return 2
				}
			}
			if isRace && got == 0 {
				v.Message += "\n(note: the report did not re-appear in 6 replays of the recorded schedule; see DESIGN.md 10.2 on sync.Pool randomisation in race builds)"
			}
		}
		path := writeReplay(id, tier, v, runs)
		fmt.Printf("VIOLATION property=%s replay=%s\n", id, path)
		fmt.Printf("  key: %s\n  %s\n", v.Key, indent(v.Message))
	}
	if nViol > maxPrinted {
		fmt.Printf("... and %d more violation classes (VF_MAX_PRINT to see them)\n", nViol-maxPrinted)
	}
	for _, l := range knownSeen {
		fmt.Println(l)
	}

	if execs == 0 {
		execs = totalExecs
	}
	evaluations := execs + cases
	cov["evaluations"] = evaluations
	cov["distinct_nontrivial"] = len(outcomesSeen)
	cov["rule"] = def.Rule
	cov["samples"] = samples
	cov["states"] = decisions + execs + cases
	cov["transitions"] = transitions + cases
	cov["traces_validated_against_impl"] = execs + cases
	cov["executions_including_sharding_prelude"] = totalExecs
	cov["schedule_decisions"] = decisions
	cov["max_decision_depth"] = maxDepth
	cov["enumerated_cases"] = cases
	cov["distinct_outcomes"] = len(outcomesSeen)
	cov["exhaustive"] = len(capped) == 0
	cov["caps_hit"] = capped
	cov["known_findings_seen"] = knownSeen
	cov["notes"] = uniq(notes)
	type agg struct {
		K, E, Owned, Execs, DoneCost, MaxDepth int
		Wall                                  float64
	}
	per := map[string]*agg{}
	var perNames []string
	for _, res := range all {
		for _, ps := range res.PerScenario {
			a := per[ps.Name]
			if a == nil {
				a = &agg{K: ps.K, E: ps.E, DoneCost: ps.DoneCost}
				per[ps.Name] = a
				perNames = append(perNames, ps.Name)
			}
			a.Owned += ps.Owned
			a.Execs += ps.Execs
			if ps.DoneCost < a.DoneCost {
				a.DoneCost = ps.DoneCost
			}
			if ps.MaxDepth > a.MaxDepth {
				a.MaxDepth = ps.MaxDepth
			}
			if ps.WallS > a.Wall {
				a.Wall = ps.WallS
			}
		}
	}
	var perOut []map[string]any
	for _, n := range perNames {
		a := per[n]
		// distinct observable outcomes of this scenario (outcome digests start with the scenario name):
		// one outcome from many schedules means nothing collided, i.e. the scenario is vacuous
		nOut := 0
		for o := range outcomesSeen {
			if strings.HasPrefix(o, n+":") || strings.HasPrefix(o, n+" ") {
				nOut++
			}
		}
		perOut = append(perOut, map[string]any{"scenario": n, "K": a.K, "E": a.E, "executions": a.Owned, "distinct_outcomes": nOut, "completed_cost_bound": a.DoneCost, "max_decisions": a.MaxDepth, "wall_s": round1(a.Wall)})
		if os.Getenv("VF_VERBOSE") != "" {
			fmt.Fprintf(os.Stderr, "  %-50s K=%d E=%d execs=%d outcomes=%d done_cost=%d depth=%d wall=%.1fs\n", n, a.K, a.E, a.Owned, nOut, a.DoneCost, a.MaxDepth, a.Wall)
		}
	}
	cov["per_scenario"] = perOut
	var rb []map[string]any
	for _, o := range outcomes {
		rb = append(rb, map[string]any{"pkg": o.run.Pkg, "scenario": o.run.Scenario, "K": o.run.K, "E": o.run.E, "race": o.run.Race, "wall_s": round1(o.wall)})
	}
	cov["runs"] = rb
	ev.Coverage = cov
	ev.WallS = round1(time.Since(t0).Seconds())
	ev.Violations = nViol
	if len(samples) == 0 {
		cov["samples"] = []any{"(no sample recorded)"}
	}
	if os.Getenv("VF_NO_EVIDENCE") == "" { // selftest runs against mutated scratch trees must not overwrite the evidence
		os.MkdirAll(filepath.Join(verifDir, "evidence"), 0o755)
		eb, _ := json.MarshalIndent(ev, "", " ")
		os.WriteFile(filepath.Join(verifDir, "evidence", id+".json"), eb, 0o644)
	}
	fmt.Printf("%s tier=%s: %d executions, %d enumerated cases, %d distinct outcomes, %d violations, %d known findings re-observed, exhaustive=%v, %.1fs\n",
		id, tier, execs, cases, len(outcomesSeen), nViol, len(knownSeen), len(capped) == 0, time.Since(t0).Seconds())
	return exit
}

type evidence struct {
	PropertyID  string         `json:"property_id"`
	Tier        string         `json:"tier"`
	Seed        int64          `json:"seed"`
	Level       string         `json:"level"`
	Coverage    map[string]any `json:"coverage"`
	Assumptions []string       `json:"assumptions"`
	WallS       float64        `json:"wall_s"`
	Violations  int            `json:"violations"`
}

func round1(f float64) float64 { return float64(int(f*10)) / 10 }

func uniq(s []string) []string {
	sort.Strings(s)
	out := s[:0:0]
	for i, x := range s {
		if i == 0 || x != s[i-1] {
			out = append(out, x)
		}
	}
	return out
}

func contains(s []string, x string) bool {
	for _, y := range s {
		if y == x {
			return true
		}
	}
	return false
}

func indent(s string) string { return strings.ReplaceAll(s, "\n", "\n  ") }

type replayFile struct {
	Property  string     `json:"property"`
	Tier      string     `json:"tier"`
	Violation *violation `json:"violation"`
	Run       *run       `json:"run,omitempty"`
}

func writeReplay(id, tier string, v *violation, runs []run) string {
	dir := filepath.Join(verifDir, "replays", id)
	if os.Getenv("VF_NO_EVIDENCE") != "" {
		dir = filepath.Join(os.TempDir(), "vf-selftest-replays", id)
	}
	os.MkdirAll(dir, 0o755)
	h := sha256.Sum256([]byte(v.Key))
	path := filepath.Join(dir, hex.EncodeToString(h[:6])+".json")
	rf := replayFile{Property: id, Tier: tier, Violation: v}
	for i := range runs {
		if runs[i].Scenario == v.Scenario {
			rf.Run = &runs[i]
			break
		}
	}
	b, _ := json.MarshalIndent(rf, "", " ")
	os.WriteFile(path, b, 0o644)
	return path
}

func runReplay(path string) int {
	b, err := os.ReadFile(path)
	if err != nil {
		fmt.Fprintln(os.Stderr, err)
		return 2
	}
	var rf replayFile
	if err := json.Unmarshal(b, &rf); err != nil || rf.Run == nil {
		fmt.Fprintln(os.Stderr, "not a replayable artefact:", err)
		return 2
	}
	bd, err := prepare(rf.Run.Race, []string{rf.Run.Pkg})
	if err != nil {
		fmt.Fprintln(os.Stderr, "MACHINERY-ERROR:", err)
		return 2
	}
	scratch, _ := os.MkdirTemp(scratchBase(), "vf-replay-")
	defer os.RemoveAll(scratch)
	sp := spec{Scenario: rf.Run.Scenario, Params: rf.Run.Params, Tier: rf.Tier, K: rf.Run.K, E: rf.Run.E, F: rf.Run.F, Horizon: rf.Run.Horizon, NShards: 1, Replay: rf.Violation.Choices, ReplayCase: rf.Violation.Case, Trace: true, Race: rf.Run.Race}
	if sp.Replay == nil {
		sp.Replay = []int{}
	}
	res, err := runWorker(bd, rf.Run.Pkg, sp, scratch)
	if err != nil {
		fmt.Fprintln(os.Stderr, "MACHINERY-ERROR:", err)
		return 2
	}
	for _, s := range res.Samples {
		sb, _ := json.MarshalIndent(s, "", " ")
		fmt.Println(string(sb))
	}
	for _, v := range res.Violations {
		if v.Key == rf.Violation.Key {
			fmt.Printf("REPRODUCED %s\n  %s\n", v.Key, indent(v.Message))
			return 1
		}
	}
	for _, v := range res.Violations {
		fmt.Println("  (observed instead:", v.Key+")")
	}
	fmt.Println("not reproduced: the recorded schedule/case no longer violates", rf.Violation.Key)
	return 0
}

func firstNonEmpty(a, b string) string {
	if a != "" {
		return a
	}
	return b
}
