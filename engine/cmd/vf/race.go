package main

import (
	"regexp"
	"sort"
	"strings"
)

type raceReport struct {
	key, text string
	skip      bool // an access of the environment (harness / shim), kept only so that report indices stay aligned
}

var (
	reBrackets = regexp.MustCompile(`\[[^\[\]]*\]`)
	reSuffix   = regexp.MustCompile(`(-range\d+|\.func\d+(\.\d+)*|\.gowrap\d+|\.\d+)+$`)
)

// normFunc reduces a frame's function to package.(*Type).Method without generic
// instantiations, closure or range-function suffixes.
func normFunc(fn string) string {
	fn = strings.TrimSuffix(fn, "()")
	for {
		n := reBrackets.ReplaceAllString(fn, "")
		if n == fn {
			break
		}
		fn = n
	}
	for {
		n := reSuffix.ReplaceAllString(fn, "")
		if n == fn {
			break
		}
		fn = n
	}
	// Inlined generic chains read "pkg.Outer.(*T).Mid.(*U).Inner": the code that runs is the last
	// "(*U).Inner" (or "pkg.Func"); closures ("pkg.NewX.func3") are attributed to their parent.
	if m := reLastMethod.FindStringSubmatch(fn); m != nil {
		return m[1] + "." + m[2]
	}
	if i := strings.Index(fn, ".func"); i > 0 {
		fn = fn[:i]
	}
	if i := strings.LastIndex(fn, "/"); i >= 0 {
		fn = fn[i+1:]
	}
	return fn
}

var reLastMethod = regexp.MustCompile(`\(\*?(\w+)\)\.(\w+)$`)

// parseRaceReports splits a race-detector log into reports and normalises each to the
// unordered pair of innermost frames that belong to the code under test (reservoir/...
// excluding the zzverif shims and the harness files), with the access kinds.
func parseRaceReports(txt string) []raceReport {
	var out []raceReport
	blocks := strings.Split(txt, "WARNING: DATA RACE")
	for _, b := range blocks[1:] {
		if i := strings.Index(b, "=================="); i >= 0 {
			b = b[:i]
		}
		lines := strings.Split(b, "\n")
		type access struct {
			kind  string
			frame string
			site  string
		}
		var accs []access
		for i := 0; i < len(lines); i++ {
			l := lines[i]
			var kind string
			switch {
			case strings.HasPrefix(l, "Write at"), strings.HasPrefix(l, "Previous write at"):
				kind = "write"
			case strings.HasPrefix(l, "Read at"), strings.HasPrefix(l, "Previous read at"):
				kind = "read"
			case strings.HasPrefix(l, "Atomic"), strings.HasPrefix(l, "Previous atomic"):
				kind = "atomic"
			default:
				continue
			}
			a := access{kind: kind, frame: "?"}
			first := true
			for j := i + 1; j+1 < len(lines) && strings.TrimSpace(lines[j]) != ""; j += 2 {
				fn := strings.TrimSpace(lines[j])
				file := strings.TrimSpace(lines[j+1])
				if strings.HasPrefix(fn, "runtime.") || strings.HasPrefix(fn, "internal/") {
					continue
				}
				if first {
					first = false
					// the access itself is in shim / environment code (origin log, recorder):
					// not an access of the code under test
					if strings.HasPrefix(fn, "reservoir/zzverif/") && !strings.Contains(fn, "MapOrder") {
						break
					}
				}
				if strings.Contains(file, "zz_verif_") && strings.Contains(fn, "AsCaller") {
					// harness code that stands in for a caller of the API under test (it uses what the API handed
					// it the way the proxy does): an access of its own, not an oracle peeking at internals
					a.site = "harness standing in for the API's caller"
					a.frame = "caller:" + normFunc(fn)
					break
				}
				if !strings.HasPrefix(fn, "reservoir/") || strings.HasPrefix(fn, "reservoir/zzverif/") || strings.Contains(file, "zz_verif_") {
					continue
				}
				if k := strings.Index(file, " +0x"); k > 0 {
					file = file[:k]
				}
				a.site = strings.TrimPrefix(file, strings.TrimSuffix(repoDir, "/")+"/")
				src := a.site
				if k := strings.LastIndex(src, ":"); k > 0 {
					src = src[:k]
				}
				a.frame = src + ":" + normFunc(fn)
				break
			}
			accs = append(accs, a)
			if len(accs) == 2 {
				break
			}
		}
		if len(accs) < 2 || accs[0].frame == "?" || accs[1].frame == "?" {
			// one side is harness code reading internal state for an oracle: not an access of the code under test
			out = append(out, raceReport{skip: true})
			continue
		}
		parts := []string{accs[0].kind + ":" + accs[0].frame, accs[1].kind + ":" + accs[1].frame}
		sort.Strings(parts)
		text := "data race: " + accs[0].kind + " in " + accs[0].frame + " (" + accs[0].site + ") vs " + accs[1].kind + " in " + accs[1].frame + " (" + accs[1].site + ")\n" + trimReport(b)
		out = append(out, raceReport{key: parts[0] + "|" + parts[1], text: text})
	}
	return out
}

func trimReport(b string) string {
	lines := strings.Split(b, "\n")
	var keep []string
	for _, l := range lines {
		if strings.HasPrefix(l, "Goroutine ") {
			break
		}
		if strings.Contains(l, "zzverif/") || strings.Contains(l, "zz_verif_") {
			continue
		}
		keep = append(keep, l)
	}
	if len(keep) > 40 {
		keep = keep[:40]
	}
	return strings.TrimSpace(strings.Join(keep, "\n"))
}
