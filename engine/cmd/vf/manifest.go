package main

import (
	"bufio"
	"encoding/json"
	"fmt"
	"os"
	"path/filepath"
)

// writeManifest regenerates MANIFEST.json from the check table, so that the manifest
// can never claim a check that does not exist.
func writeManifest() {
	type levelClaimed struct {
		Category  string `json:"category"`
		Text      string `json:"text"`
		DesignRef string `json:"design_ref,omitempty"`
	}
	type check struct {
		PropertyID  string       `json:"property_id"`
		QuickCmd    string       `json:"quick_cmd"`
		ThoroughCmd string       `json:"thorough_cmd"`
		Evidence    string       `json:"evidence_file"`
		Replay      string       `json:"replay_cmd_template"`
		Engine      string       `json:"engine"`
		Level       levelClaimed `json:"level_claimed"`
		LevelNote   string       `json:"level_note"`
		Technique   string       `json:"technique"`
	}
	type na struct {
		PropertyID string `json:"property_id"`
		Reason     string `json:"reason"`
	}
	var checks []check
	claimed := map[string]bool{}
	var serves []string
	for _, c := range allChecks() {
		claimed[c.ID] = true
		serves = append(serves, c.ID)
		cat := c.Category
		if cat == "" {
			cat = c.Level
		}
		checks = append(checks, check{
			PropertyID: c.ID, QuickCmd: "./vf check " + c.ID + " --tier quick", ThoroughCmd: "./vf check " + c.ID + " --tier thorough",
			Evidence: "/verif/evidence/" + c.ID + ".json", Replay: "./vf replay {path}", Engine: "vf",
			Level: levelClaimed{Category: cat, Text: c.LevelText, DesignRef: c.DesignRef}, LevelNote: c.LevelNote, Technique: c.Technique,
		})
	}
	nas := []na{}
	reasons := map[string]string{}
	if b, err := os.ReadFile(filepath.Join(verifDir, "not_applicable.json")); err == nil {
		json.Unmarshal(b, &reasons)
	}
	f, err := os.Open(filepath.Join(verifDir, "properties.jsonl"))
	if err == nil {
		sc := bufio.NewScanner(f)
		sc.Buffer(make([]byte, 1<<20), 1<<22)
		for sc.Scan() {
			var p struct {
				ID string `json:"id"`
			}
			if json.Unmarshal(sc.Bytes(), &p) == nil && p.ID != "" && !claimed[p.ID] {
				r := reasons[p.ID]
				if r == "" {
					r = "check under construction: the harness for this property is not built yet (see DESIGN.md section 4 for the design)"
				}
				nas = append(nas, na{p.ID, r})
			}
		}
		f.Close()
	}
	m := map[string]any{
		"version":   1,
		"setup_cmd": "cd /verif && ./vf warm",
		"hooks": map[string]any{
			"guard":            "verif",
			"enable":           "no hooks are committed to /repo: every check regenerates a `go test -tags verif -overlay <file>` build from /repo's current working tree (instrumenter: /verif/engine/instr); only overlay-injected files carry the tag",
			"baseline_off_cmd": "cd /repo && go test -vet=off -count=1 ./...",
			"source_commits":   []string{},
			"add_only":         true,
		},
		"engines": []map[string]any{{
			"name": "vf", "path": "/verif/engine", "serves_properties": serves,
			"kind_free_text": "hand-written stateless model checker for Go: type-aware source instrumenter (sync/time/os/channels/go/atomics/map-order seams) + cooperative scheduler with preemption-, delay- and environment-bounded iterative DFS over the real code, exhaustive history/input/fault enumeration against reference models, race oracle inside the scheduler",
		}},
		"checks":         checks,
		"not_applicable": nas,
		"notes":          "All checks run the instrumented real code; see DESIGN.md. Exit 0 = held (KNOWN-FINDING lines for recorded defects), 1 = VIOLATION, 2 = machinery error.",
	}
	b, _ := json.MarshalIndent(m, "", "  ")
	if err := os.WriteFile(filepath.Join(verifDir, "MANIFEST.json"), append(b, '\n'), 0o644); err != nil {
		fmt.Fprintln(os.Stderr, err)
		os.Exit(2)
	}
}
