package main

import "strings"

type checkDef struct {
	ID          string
	Title       string
	Category    string // level_claimed.category
	LevelText   string
	LevelNote   string
	Technique   string
	DesignRef   string
	Level       string // evidence level
	Rule        string
	Assumptions []string
	Runs        func(tier string) []run
	Also        []string // other properties whose violation keys this check reports too
}

func (c *checkDef) Owns(prop string) bool {
	for _, a := range c.Also {
		if a == prop {
			return true
		}
	}
	return false
}

var loggingCases = []string{"two-writer-settings-in-one-document", "backups-then-file", "file-then-back", "rebuild-vs-log-reader", "backups-then-level", "level-then-compress-then-level"}

func racePackages() []string {
	return []string{"./cache", "./utils/event", "./proxy", "./proxy/certs", "./webserver/auth", "./logging", "./metrics", "./config"}
}


var commonAssumptions = []string{
	"context switches happen only at sync operations, channel operations, utils/atomics calls, spawn/exit and explicit harness yields (DESIGN.md A1)",
	"verdicts hold within the stated bounds: preemptions K, environment deviations E, thread/operation/key alphabet (A2)",
	"slog output is discarded, so synchronisation that exists only because a log line is enabled is not counted (A4)",
}

type cp struct {
	Backend  string `json:"backend"`
	Shards   int    `json:"shards"`
	Limit    int64  `json:"limit"`
	Interval int    `json:"interval_ms"`
}

type sched struct {
	Name string `json:"name"`
	cp
	Init    []string   `json:"init"`
	Threads [][]string `json:"threads"`
	Final   []string   `json:"final"`
	Checks  []string   `json:"checks"`
	Prop    string     `json:"prop"`
	ExpectPresent []string `json:"expect_present,omitempty"`
	ExpectLimit   int64    `json:"expect_limit,omitempty"`
	ExpectIntervalMs int   `json:"expect_interval_ms,omitempty"`
	ExpectNotNotifiedAfterDestroy bool `json:"expect_not_notified_after_destroy,omitempty"`
	ExpectNoStuckNotification     bool `json:"expect_no_stuck_notification,omitempty"`
}

type lru struct {
	Name     string   `json:"name"`
	Backend  string   `json:"backend"`
	Shards   []int    `json:"shards"`
	Limits   []int64  `json:"limits"`
	Sizes    []int64  `json:"sizes"`
	MaxN     int      `json:"max_n"`
	Triggers []string `json:"triggers"`
	Mode     string   `json:"mode"`
}

func checkC13() *checkDef {
	return &checkDef{
		ID: "C13", Title: "Size limit enforced by LRU eviction; cleanup removes exactly the expired", Level: "model_checking",
		LevelText: "Exhaustive enumeration of cache populations (2-4 entries, sizes from {100,300,600} bytes, every access order, every expiry subset) x limits x shard counts x triggers (store on another shard, store on a colliding shard, janitor cycle) with the limit changed at run time through the config event, on the real code under the virtual clock; each outcome is judged by a relational reference written from the property text (nothing evicted below the limit; down to <=80% or until nothing evictable is left; stops at the target; least recently used first within a size class; cleanup removes exactly the expired). Plus all schedules (K preemptions) of a fresh overwrite racing the cleanup scan/removal. Also all schedules of an eviction (janitor cycle or store-triggered) racing a deletion that frees the bytes itself, with every removal made by the janitor code traced together with the size the cache reported just before it: a removal at or below the target that no concurrent operation excuses is a violation. Size weighting (cache/size-weight): a 2 MiB larger entry used one millisecond after a small one outranks it (the statement gives no figure; only that the weighting is observable is demanded), for the periodic cycle and the store trigger; an entry overwritten between the eviction pass's scan and its removals stays (all schedules).",
		LevelNote: "Trusted: instrumenter, virtual clock (1 microsecond tick per Now()), harness view of the entry maps. Entries sharing the triggering store's shard lock are exempt as the property allows. The size-weight constant is deliberately not part of the reference.",
		Technique: "explicit-state enumeration of populations/triggers on the implementation against a relational reference model + preemption-bounded schedule enumeration",
		DesignRef: "DESIGN.md section 4 C13, appendix B4",
		Rule:        "all (sizes, access permutation | expiry subset, limit, shard count, trigger) tuples; distinct by tuple; non-trivial = distinct evicted-set outcome",
		Assumptions: commonAssumptions,
		Runs: func(tier string) []run {
			maxN, k := 4, 2
			shards := []int{1, 2, 32}
			if tier == "thorough" {
				k = 3
			}
			var ls []lru
			for _, be := range []string{"memory", "file"} {
				ls = append(ls, lru{Name: "evict/" + be, Backend: be, Shards: shards, Limits: []int64{1000, 2000}, Sizes: []int64{100, 300, 600}, MaxN: maxN, Triggers: []string{"store", "store-colliding", "tick"}, Mode: "evict"})
				ls = append(ls, lru{Name: "cleanup/" + be, Backend: be, Shards: shards, Limits: []int64{1 << 40}, Sizes: []int64{100, 300}, MaxN: maxN, Triggers: []string{"tick"}, Mode: "cleanup"})
			}
			var ps []sched
			for _, be := range []string{"memory", "file"} {
				for _, sh := range []int{1, 32} {
					base := cp{Backend: be, Shards: sh, Limit: 100000, Interval: 1000}
					name := func(s string) string { return s + "/" + be + "/shards=" + itoa(sh) }
					ps = append(ps, sched{Name: name("fresh-overwrite-vs-cleanup"), cp: base, Prop: "C13",
						Init: []string{"Se:a:40", "Se:c:30", "T"}, Threads: [][]string{{"S:a:20"}}, Final: []string{"Q"}, ExpectPresent: []string{"a"}})
					ps = append(ps, sched{Name: name("revalidate-vs-cleanup"), cp: base, Prop: "C13",
						Init: []string{"Se:a:40", "T"}, Threads: [][]string{{"U:a"}, {"G:c"}}, Final: []string{"Q"}})
					// the least recently used entry is overwritten (so it is the most recently used one) while an
					// eviction cycle is between choosing its victims and removing them: the fresh entry stays
					ps = append(ps, sched{Name: name("fresh-overwrite-vs-eviction"), cp: base, Prop: "C13",
						Init: []string{"S:a:200", "A:50", "S:c:200", "A:50", "S:d:90", "L:300", "T"}, Threads: [][]string{{"S:a:20"}}, Final: []string{"Q"}, ExpectPresent: []string{"a"}})
					// eviction racing a deletion that frees the bytes itself: the loop must stop once the cache
					// reports the target, whoever freed the bytes (every janitor removal is traced with the size before it)
					full := cp{Backend: be, Shards: sh, Limit: 1000, Interval: 1000}
					ps = append(ps, sched{Name: name("evict-cycle-vs-delete"), cp: full, Prop: "C13", Checks: []string{"evict-stops-at-target", "counters"},
						Init: []string{"S:a:100", "S:b:100", "S:c:100", "S:d:100", "S:f:600", "T"}, Threads: [][]string{{"D:f"}}, Final: []string{"Q"}})
					ps = append(ps, sched{Name: name("store-evict-vs-delete"), cp: full, Prop: "C13", Checks: []string{"evict-stops-at-target", "counters"},
						Init: []string{"S:a:100", "S:b:100", "S:c:100", "S:d:100", "S:f:600"}, Threads: [][]string{{"S:e:50"}, {"D:f"}}, Final: []string{"Q"}})
				}
			}
			// "a limit or interval changed at run time governs the following cycles": back-to-back changes,
			// every schedule of their notifications; the cache / janitor must end up with the later value
			for _, sc := range c19CacheScenarios() {
				if strings.HasPrefix(sc.Name, "limit-v1-v2") || strings.HasPrefix(sc.Name, "interval-v1-v2") {
					sc.Prop = "C13"
					ps = append(ps, sc)
				}
			}
			return []run{
				{Pkg: "./cache", Scenario: "cache/lru", Params: ls},
				// "larger entries weighted up": a 2 MiB larger entry used a millisecond later outranks a small one
				{Pkg: "./cache", Scenario: "cache/size-weight", Params: map[string]any{}, Workers: 1},
				{Pkg: "./cache", Scenario: "cache/sched", Params: ps, K: k, E: 1, Horizon: 5000},
			}
		},
	}
}

// seqHistories: the cache/seq operation histories at a given depth (shared by C12, which owns the
// accounting oracle, and by C01 / C14, whose keys the same harness can emit: a wrong read, a
// history that does not run to completion).
func seqHistories(depth int) []seq {
	var seqs []seq
	for _, be := range []string{"memory", "file"} {
		seqs = append(seqs, seq{Name: "histories/" + be, cp: cp{Backend: be, Shards: 2, Limit: 10, Interval: 1000}, Alphabet: seqAlphabet, Depth: depth, Reopen: be == "file"})
	}
	return seqs
}

// lruPopulations: the cache/lru enumeration (owned by C13; C14 runs it too because a population
// whose trigger never completes is reported under C14).
func lruPopulations(maxN int) []lru {
	shards := []int{1, 2, 32}
	var ls []lru
	for _, be := range []string{"memory", "file"} {
		ls = append(ls, lru{Name: "evict/" + be, Backend: be, Shards: shards, Limits: []int64{1000, 2000}, Sizes: []int64{100, 300, 600}, MaxN: maxN, Triggers: []string{"store", "store-colliding", "tick"}, Mode: "evict"})
		ls = append(ls, lru{Name: "cleanup/" + be, Backend: be, Shards: shards, Limits: []int64{1 << 40}, Sizes: []int64{100, 300}, MaxN: maxN, Triggers: []string{"tick"}, Mode: "cleanup"})
	}
	return ls
}

func allChecks() []*checkDef {
	return []*checkDef{checkC01(), checkC02(), checkC03(), checkC04(), checkC05(), checkC06(), checkC07(), checkC08(), checkC09(), checkC10(), checkC11(), checkC12(), checkC13(), checkC14(), checkC15(), checkC16(), checkC17(), checkC18(), checkC19(), checkC20()}
}

// ccRun: every Cache-Control value over a small alphabet through the real parser and storability decision
func ccRun(tier string) run {
	ml := 4
	if tier == "thorough" {
		ml = 6
	}
	return run{Pkg: "./proxy/headers", Scenario: "headers/cache-control", Params: map[string]any{"max_len": ml}}
}

func freshRuns(tier string) []run {
	return []run{
		{Pkg: "./proxy", Scenario: "proxy/fresh", Params: map[string]any{"backend": "memory"}},
		{Pkg: "./proxy", Scenario: "proxy/fresh", Params: map[string]any{"backend": "file"}},
		// the policy switches changed on a running proxy between requests (histories of accepted updates)
		{Pkg: "./proxy", Scenario: "proxy/switches", Params: map[string]any{}, Workers: 8},
	}
}

var seqAssumptions = []string{
	"the origin, the client and the clock are in-process and deterministic (DESIGN.md 2.2); requests are produced by http.ReadRequest from wire bytes and handed to the real Proxy.ServeHTTP",
	"verdicts hold for the enumerated alphabet and depth only (A2)",
	"slog output is discarded (A4)",
}

func checkC03() *checkDef {
	return &checkDef{
		ID: "C03", Title: "A stored response is reused only while fresh; expiry forces an origin contact", Level: "model_checking",
		LevelText: "Explicit-state exploration of request histories on the real proxy: every origin header class (Cache-Control directives in several letter cases, orders, one or two field lines, malformed/overflowing max-age; Expires absent/future/past/'0'/garbage/RFC 850) x the four ignore/force policies x two default lifetimes x nine gap patterns (gaps of 1 s, lifetime-1 s, lifetime+1 s relative to the reference lifetime) of three requests with the origin's version bumped between them; every exchange is judged against the reference relation B1: origin contacted iff required, HIT label iff no contact, Age and ttl within one second of the reference. Origin clock skew: Date 0 s / 5 s / 300 s / 2 h ahead of the proxy's clock and no Date at all; Age and ttl of hits 3 s, 100 s and 599 s after storing must follow the time of storing. Category-changing histories: see C04.",
		LevelNote: "Trusted: the in-process origin and virtual clock; the reference relation B1 (written from the property text; the instant age==lifetime, ignored max-age=0 and malformed max-age are left free).",
		Technique: "explicit-state enumeration of request histories x header classes x policies on the implementation against a reference freshness model",
		DesignRef: "DESIGN.md section 4 C03, appendix B1",
		Rule:        "all (policy, default, header class, gap pattern) tuples, three requests each; distinct by tuple; non-trivial = distinct contact/hit pattern with its must/must-not classification",
		Assumptions: seqAssumptions,
		Runs: func(tier string) []run {
			// the policy switched while an exchange is in flight: the response is stored / refreshed under
			// the policy in force when it arrives (all schedules within K/F of the switch vs the exchange)
			var pp []psched
			for _, be := range []string{"memory", "file"} {
				for _, start := range []string{"cold", "stale-304", "stale-200"} {
					pp = append(pp, psched{Name: "policy-switched-in-flight/" + start + "/" + be, Backend: be, Clients: 1, Start: start, Outcome: "cacheable", Policy: "force-1s", Prop: "C03"})
				}
			}
			// ranges cut from a fresh stored entry are served "this way" too and carry the HIT label
			rr := run{Pkg: "./proxy", Scenario: "proxy/range", Params: map[string]any{"backend": "memory"}}
			// lifetimes after a revalidation (a 304 renews by the configured default whatever the request carried)
			rv := run{Pkg: "./proxy", Scenario: "proxy/reval", Params: map[string]any{"backend": "memory", "depth": 3}}
			return append(freshRuns(tier), run{Pkg: "./proxy", Scenario: "proxy/sched", Params: pp, K: 2, E: 1, F: 1, Horizon: 8000}, rr, rv)
		},
	}
}

func checkC04() *checkDef {
	return &checkDef{
		ID: "C04", Title: "Exactly the storable responses are stored", Level: "model_checking",
		LevelText: "Same enumeration as C03 (header classes x policies x gap patterns) plus methods x status codes: a response is served without origin contact only if it was a 200 answer to a GET and not marked no-store/no-cache/private/max-age=0/already expired (unless directives are ignored); conversely a 200 GET with positive max-age, or with no Cache-Control and no past Expires, is reused while fresh. Plus every history of four answers on one key over six answer categories (storable 200, no-store, private, max-age=0, 503, 404) x ignore on/off against a two-line store model: nothing remembered about an earlier answer for the key may keep a later storable answer out of the store or an unstorable one in.",
		LevelNote: "Trusted: in-process origin, virtual clock, reference relation B1 (must / must-not / free zones).",
		Technique: "explicit-state enumeration of request histories x header classes x methods x statuses on the implementation against a reference storability model",
		DesignRef: "DESIGN.md section 4 C04, appendix B1",
		Rule:        "all (policy, header class, gap pattern) tuples and all (method, status) pairs; distinct by tuple; non-trivial = distinct contact pattern",
		Assumptions: seqAssumptions,
		Runs:        func(tier string) []run { return append(freshRuns(tier), ccRun(tier)) },
	}
}

func checkC02() *checkDef {
	return &checkDef{
		ID: "C02", Title: "Distinct resources never share a cache entry", Level: "exploration",
		Category: "exploration",
		LevelText: "Bounded-exhaustive input enumeration: every request target from {GET,HEAD} x 4 hosts x all paths of up to 3 segments over {a,b,.,..,empty,a|b,a%7Cb,a%2Fb,%61,A} with and without trailing slash x 8 query forms, parsed from the wire by http.ReadRequest, keyed by the real MakeFromRequest; ALL pairs are judged (keys are bucketed, colliding buckets compared pairwise) against the relation B2 written from the property text: equal up to host case and dot-segment removal must share; differing in anything beyond duplicate slashes / unreserved percent-decoding must not. Violating pair classes are confirmed end to end through the proxy (store A, request B, decode whose body came back). End to end also over the host/scheme/transport component: all ordered pairs of eight addressings (plain a.test, A.TEST, b.test, a.test:8080; tunnel to a.test; tunnel to b.test; tunnel to a.test with inner Host b.test / A.test) against a host-aware scripted origin: the second request must receive the body of the origin it names, and pairs naming one resource must share.",
		LevelNote: "Trusted: the reference relation (RFC 3986 5.2.4 remove_dot_segments on the path as sent), http.ReadRequest as the producer of what the server sees.",
		Technique: "bounded-exhaustive enumeration of request-target pairs against a reference identity relation, with end-to-end confirmation through the implementation",
		DesignRef: "DESIGN.md section 4 C02, appendix B2",
		Rule:        "all targets from the component product and all pairs among them; distinct by target; non-trivial = targets falling into distinct keys / must-share groups",
		Assumptions: seqAssumptions,
		Runs: func(tier string) []run {
			return []run{
				{Pkg: "./cache", Scenario: "cache/keys", Params: map[string]any{"max_segs": 3}, Workers: 1},
				{Pkg: "./proxy", Scenario: "proxy/keys", Params: map[string]any{}, Workers: 1},
			}
		},
	}
}

func checkC06() *checkDef {
	return &checkDef{
		ID: "C06", Title: "Revalidation uses stored validators; 304 and 200 update the entry correctly", Level: "model_checking",
		LevelText: "Explicit-state exploration of histories over {GET with six kinds of client conditionals, expire (1 s past / 1 s before the model's expiry), origin content change, origin answers the next request 404/500} up to depth 4 (5 thorough) x five validator schemes (ETag, Last-Modified, both, none, weak ETag) x both backends on the real proxy, in lock step with a reference model: every upstream request must carry exactly the stored validators and no client conditional; 304 keeps the stored body and renews the lifetime by the configured default (probed 1 s before and after); 200 replaces it; other answers are relayed and force a new contact. Validator schemes include 304 answers that print the ETag in weak form, print another tag, print no validator, or carry payload fields; a 304 ends the exchange (no further upstream request) and renews the stored entry whatever it prints.",
		LevelNote: "Trusted: in-process origin (honours conditionals like a real origin), virtual clock, the lock-step reference model.",
		Technique: "explicit-state enumeration of request/expiry/origin-change histories on the implementation in lock step with a reference model",
		DesignRef: "DESIGN.md section 4 C06",
		Rule:        "all event sequences of the given depth ending in a GET, per validator scheme; distinct by sequence; non-trivial = distinct hit/revalidate/miss/error pattern",
		Assumptions: seqAssumptions,
		Runs: func(tier string) []run {
			d := 4
			if tier == "thorough" {
				d = 5
			}
			return []run{
				{Pkg: "./proxy", Scenario: "proxy/reval", Params: map[string]any{"backend": "memory", "depth": d}},
				{Pkg: "./proxy", Scenario: "proxy/reval", Params: map[string]any{"backend": "file", "depth": d}},
			}
		},
	}
}

func checkC07() *checkDef {
	return &checkDef{
		ID: "C07", Title: "Range answers are exact slices or explicit refusals", Level: "exploration",
		Category: "exploration",
		LevelText: "Bounded-exhaustive input enumeration: every Range header made of 7 prefixes x every tail over {0,1,5,9,-,',',SP,x} up to length 6 (7 thorough) plus 64-bit boundary numbers in every position, on representation sizes {0,1,2,10,36}, through the real parser and slicer under recover(), against an independent RFC 9110 reference with arbitrary-precision numbers (B3); then representative headers of every outcome class end to end through the real http.Server and proxy (both retry_on_invalid_range settings, six If-Range forms): a 206 must be exactly an allowed slice with consistent Content-Range/Content-Length, anything else a 416 with 'bytes */size' or the full 200, never a dropped connection.",
		LevelNote: "Trusted: the reference RefRange (written from RFC 9110 14.1.2 and the repository's own whitespace-tolerant reading), the in-process origin. Random strings and strings longer than the bound are not covered.",
		Technique: "bounded-exhaustive enumeration of the range-spec grammar against an independent reference function, plus end-to-end replay of every outcome class through the real server stack",
		DesignRef: "DESIGN.md section 4 C07, appendix B3",
		Rule:        "all strings prefix+tail with |tail| <= bound over the 8-symbol alphabet plus boundary numbers, on each size; distinct by (string,size); non-trivial = distinct (served/refused/panic, well-formed, satisfiable) class",
		Assumptions: seqAssumptions,
		Runs: func(tier string) []run {
			ml := 6
			if tier == "thorough" {
				ml = 7
			}
			return []run{
				{Pkg: "./proxy/headers", Scenario: "headers/range", Params: map[string]any{"max_len": ml, "sizes": []int{0, 1, 2, 10, 36}}},
				{Pkg: "./proxy", Scenario: "proxy/range", Params: map[string]any{"backend": "memory"}},
				{Pkg: "./proxy", Scenario: "proxy/range", Params: map[string]any{"backend": "file"}},
				{Pkg: "./proxy", Scenario: "proxy/switches", Params: map[string]any{}, Workers: 8},
			}
		},
	}
}

func checkC08() *checkDef {
	return &checkDef{
		ID: "C08", Title: "Relayed traffic is faithful in both directions", Level: "exploration",
		Category: "exploration",
		LevelText: "Bounded-exhaustive feature enumeration through the real http.Server + proxy over in-memory connections and (tunnel harness) the real CONNECT/TLS path: a base GET with every single feature and every compatible pair of ~50 features (7 methods; 9 target shapes incl. %2F, %20, ';', empty query, '//' and dot segments; 11 request header shapes incl. multi-valued, Connection-nominated and all hop-by-hop fields; 3 request bodies incl. chunked and 70 kB; 5 statuses; 8 response header shapes incl. Set-Cookie x3, Link x2, Vary x2; validators absent; 3 response bodies incl. chunked and 70 kB), each judged relayed and, when cacheable, again from the store: method, target as sent, body and end-to-end header multimap (values in order) equal in both directions; hop-by-hop and Connection-nominated fields absent. Every stored GET case has a third round: the entry has gone stale and the origin has moved on to a version that must not be stored, so the proxy revalidates, cannot keep the answer and fetches again; every upstream request of that exchange must carry the client's end-to-end headers and none but the revalidation may carry a conditional or range header the client did not send.",
		LevelNote: "Trusted: in-process origin records the request handed to the transport (header names canonicalised by net/http on both sides), the list of proxy-owned response fields excluded from comparison (Via, Age, X-Cache, Cache-Status, Accept-Ranges, Date, framing, Last-Modified, ETag when the origin sent none). Clients always send User-Agent and Accept-Encoding.",
		Technique: "bounded-exhaustive enumeration (all singles and pairs of request/response features) on the real server stack against a field-by-field fidelity oracle",
		DesignRef: "DESIGN.md section 4 C08",
		Rule:        "base exchange + every single feature + every compatible pair, on plain and CONNECT transport; distinct by feature set; non-trivial = distinct feature set",
		Assumptions: seqAssumptions,
		Runs: func(tier string) []run {
			return []run{
				{Pkg: "./proxy", Scenario: "proxy/relay", Params: map[string]any{"backend": "memory"}},
				{Pkg: "./proxy", Scenario: "proxy/relay", Params: map[string]any{"backend": "file"}},
				{Pkg: "./proxy", Scenario: "proxy/tunnel-relay", Params: map[string]any{}},
				{Pkg: "./proxy", Scenario: "proxy/range", Params: map[string]any{"backend": "memory"}},
				{Pkg: "./proxy", Scenario: "proxy/range", Params: map[string]any{"backend": "file"}},
				// with net/http's own Transport between proxy and origin (what it adds, strips or decodes is judged too)
				{Pkg: "./proxy", Scenario: "proxy/wire", Params: map[string]any{}, Workers: 1},
			}
		},
	}
}

func checkC09() *checkDef {
	return &checkDef{
		ID: "C09", Title: "Cache-side trouble never turns a good origin answer into an error", Level: "fault_enumeration",
		Category: "fault_enumeration",
		LevelText: "Fault-point enumeration on the real proxy + cache: for seven request histories (store, hit, expire+304, expire+200, range, empty body, 1-byte body) on both backends, the history is run once to log every file-system call, then re-run with each logged call failing in turn, with the write failing after every byte count, with the cache directory removed, with the cache full (1 and 32 shards) and with a zero memory budget; plus all schedules (K preemptions) of an eviction/deletion/janitor cycle placed at every point of a hit, a 304 revalidation and a coalesced hand-over. Oracle: whenever every origin answer was 2xx/304 the client receives the origin's status and complete current body: never a 5xx, a truncated body or no response.",
		LevelNote: "Trusted: the vos seam (every os.* call of the cache goes through it), in-process origin. Faults are single (one deviation per run). Disk-full semantics beyond injected errors are not modelled.",
		Technique: "exhaustive single-fault enumeration over the logged environment calls of each history (every failing FS call, every write-failure offset) + preemption-bounded schedule enumeration of eviction placements",
		DesignRef: "DESIGN.md section 4 C09",
		Rule:        "each (backend, history, fault point) triple; distinct by triple; non-trivial = distinct status pattern per fault class",
		Assumptions: seqAssumptions,
		Runs: func(tier string) []run {
			k := 2
			if tier == "thorough" {
				k = 3
			}
			var ps []psched
			for _, be := range []string{"memory", "file"} {
				n := func(s string) string { return s + "/" + be }
				// an entry deleted at every point of a hit, of a 304 revalidation, of a refresh and of a coalesced hand-over
				ps = append(ps, psched{Name: n("delete-during-hit"), Backend: be, Clients: 1, Start: "fresh", Outcome: "cacheable", Evictor: "delete", Prop: "C09"})
				ps = append(ps, psched{Name: n("delete-during-304"), Backend: be, Clients: 1, Start: "stale-304", Outcome: "cacheable", Evictor: "delete", Prop: "C09"})
				ps = append(ps, psched{Name: n("delete-during-refresh"), Backend: be, Clients: 1, Start: "stale-200", Outcome: "cacheable", Evictor: "delete", Prop: "C09"})
				ps = append(ps, psched{Name: n("delete-during-handover"), Backend: be, Clients: 2, Start: "cold", Outcome: "cacheable", Evictor: "delete", Prop: "C09"})
				ps = append(ps, psched{Name: n("delete-during-handover-304"), Backend: be, Clients: 2, Start: "stale-304", Outcome: "cacheable", Evictor: "delete", Prop: "C09"})
				ps = append(ps, psched{Name: n("other-client-hangs-up"), Backend: be, Clients: 2, Start: "cold", Outcome: "cacheable", Cancel: 2, Slow: true, Prop: "C09"})
				// the client whose request started the shared fetch / the shared revalidation hangs up
				ps = append(ps, psched{Name: n("starter-hangs-up"), Backend: be, Clients: 2, Start: "cold", Outcome: "cacheable", Cancel: 1, Prop: "C09"})
				ps = append(ps, psched{Name: n("starter-hangs-up-during-revalidation"), Backend: be, Clients: 2, Start: "stale-304", Outcome: "cacheable", Cancel: 1, Prop: "C09"})
				ps = append(ps, psched{Name: n("starter-hangs-up-during-refresh"), Backend: be, Clients: 2, Start: "stale-200", Outcome: "cacheable", Cancel: 1, Prop: "C09"})
			}
			return []run{
				// range requests refused upstream and retried: a retry answer the cache cannot keep (empty body on
				// the file backend) still reaches the client
				{Pkg: "./proxy", Scenario: "proxy/range", Params: map[string]any{"backend": "file"}},
				{Pkg: "./proxy", Scenario: "proxy/fault", Params: map[string]any{}},
				// requests with a body whose first answer is not kept, over net/http's own Transport
				{Pkg: "./proxy", Scenario: "proxy/wire", Params: map[string]any{}, Workers: 1},
				{Pkg: "./proxy", Scenario: "proxy/sched", Params: ps, K: k, E: 1, F: 1, Horizon: 8000},
			}
		},
	}
}

func checkC10() *checkDef {
	return &checkDef{
		ID: "C10", Title: "Each exchange on a CONNECT tunnel is isolated and equals plain proxying", Level: "model_checking",
		LevelText: "Explicit-state exploration of exchange sequences: every sequence of length <=3 (<=4 thorough) over nine exchange shapes (cacheable 200, its HIT, chunked no-store 200, 404 with body, 204, HEAD, Range->206, POST with body, origin 500, response with distinctive headers) is sent (i) over one kept-alive tunnel through the real handleCONNECT with a real TLS handshake, (ii) over one tunnel per request and (iii) over plain HTTP, against identically scripted origins; per position the three answers must agree on status, end-to-end header multimap and body (differential oracle: (i)!=(ii) means the answer depends on an earlier exchange). The shape alphabet includes two exchanges that fail inside the proxy while carrying a request body (unusable inner Host with a body that looks like a request; unreachable origin): their body bytes must not be read as the next request. Further shapes (sixteen in all): HEAD of a chunked resource, an origin that breaks off a sized body, a response without Content-Type, a GET with a body that looks like a request, a HEAD answered by the proxy's own 502. A fourth transport writes the whole sequence into one tunnel before the first answer is read (pipelining).",
		LevelNote: "Trusted: in-memory connections and the real net/http + crypto/tls stacks; Date, Content-Length/Transfer-Encoding/Connection are excluded from the comparison (framing may differ, the body may not).",
		Technique: "explicit-state enumeration of exchange sequences on the implementation with a three-way differential oracle (kept-alive tunnel / fresh tunnel / plain)",
		DesignRef: "DESIGN.md section 4 C10",
		Rule:        "all sequences over the shape alphabet up to the length bound; distinct by sequence; non-trivial = distinct sequence",
		Assumptions: seqAssumptions,
		Runs: func(tier string) []run {
			d := 3
			if tier == "thorough" {
				d = 4
			}
			return []run{{Pkg: "./proxy", Scenario: "proxy/tunnel", Params: map[string]any{"backend": "memory", "depth": d}}}
		},
	}
}

func checkC11() *checkDef {
	return &checkDef{
		ID: "C11", Title: "Every tunnel gets a valid host-specific certificate from the configured CA", Level: "model_checking",
		LevelText: "Input enumeration through the real handleCONNECT with a verifying TLS client on the virtual clock: 12 host shapes (DNS, upper case, sub-domain, punycode, underscore, localhost, trailing dot, IPv4 x2, IPv6 x3) x 5 ports: handshake must succeed against the CA pool for exactly that host, the leaf names exactly the host, verifies for server auth at the virtual time, and a request through the tunnel is answered. Plus histories of issuance with clock advances (239 h, 240 h, 240 h + 1 s: reuse while valid, replacement after expiry, never an expired certificate) and all schedules of 2-3 concurrent first requests per host. Concurrent issuance: all schedules (K preemptions) of 2 and 3 first requests for one host and for different hosts (two DNS names and an IP literal), with scheduling points in front of the entropy reads, key generation and signing inside issuance; each certificate must name exactly its own host.",
		LevelNote: "Trusted: crypto/x509 verification, the virtual clock wired into issuance (rule R5) and into the verifying client (tls.Config.Time).",
		Technique: "bounded-exhaustive input enumeration through the real TLS path + explicit-state enumeration of issuance/expiry histories + preemption-bounded schedule enumeration of concurrent issuance",
		DesignRef: "DESIGN.md section 4 C11",
		Rule:        "all host x port pairs; all clock-advance histories up to depth 4; all schedules within K of concurrent issuance",
		Assumptions: seqAssumptions,
		Runs: func(tier string) []run {
			k := 2
			if tier == "thorough" {
				k = 3
			}
			return []run{
				{Pkg: "./proxy", Scenario: "proxy/connect-targets", Params: map[string]any{}},
				{Pkg: "./proxy/certs", Scenario: "certs/histories", Params: map[string]any{"depth": 4}, Workers: 4},
				{Pkg: "./proxy/certs", Scenario: "certs/sched", Params: map[string]any{}, K: k, E: 0, Horizon: 3000},
			}
		},
	}
}

type psched struct {
	Name    string `json:"name"`
	Backend string `json:"backend"`
	Clients int    `json:"clients"`
	Start   string `json:"start"`
	Outcome string `json:"outcome"`
	Cancel  int    `json:"cancel"`
	Evictor string `json:"evictor"`
	Slow    bool   `json:"slow"`
	Prop    string `json:"prop"`
	AdvanceS int   `json:"advance_s,omitempty"`
	TickS    int   `json:"tick_s,omitempty"`
	LimitTo  int64 `json:"limit_to,omitempty"`
	Overwrite string `json:"overwrite,omitempty"`
	Policy    string `json:"policy,omitempty"`
}

func coalescingScenarios(prop string, clients int) []psched {
	var ps []psched
	for _, be := range []string{"memory", "file"} {
		n := func(s string) string { return s + "/" + be + "/clients=" + itoa(clients) }
		for _, start := range []string{"cold", "fresh", "stale-304", "stale-200"} {
			ps = append(ps, psched{Name: n(start), Backend: be, Clients: clients, Start: start, Outcome: "cacheable", Prop: prop})
		}
		// key histories: an earlier answer for this key could not be stored; the resource is cacheable now
		ps = append(ps, psched{Name: n("cold-after-no-store"), Backend: be, Clients: clients, Start: "after-no-store", Outcome: "cacheable", Prop: prop})
		ps = append(ps, psched{Name: n("cold-after-503"), Backend: be, Clients: clients, Start: "after-503", Outcome: "cacheable", Prop: prop})
		ps = append(ps, psched{Name: n("cold-no-store"), Backend: be, Clients: clients, Start: "cold", Outcome: "no-store", Prop: prop})
		ps = append(ps, psched{Name: n("cold-500"), Backend: be, Clients: clients, Start: "cold", Outcome: "status-500", Prop: prop})
		// the shared fetch fails once (transient 503): nothing can be shared, every client falls back to a
		// fetch of its own and must still receive the complete current body with status 200
		ps = append(ps, psched{Name: n("cold-transient-503"), Backend: be, Clients: clients, Start: "cold", Outcome: "transient-503", Prop: prop})
		ps = append(ps, psched{Name: n("stale-304-transient-503"), Backend: be, Clients: clients, Start: "stale-304", Outcome: "transient-503", Prop: prop})
		ps = append(ps, psched{Name: n("stale-200-transient-503"), Backend: be, Clients: clients, Start: "stale-200", Outcome: "transient-503", Prop: prop})
		ps = append(ps, psched{Name: n("cold-empty-body"), Backend: be, Clients: clients, Start: "cold", Outcome: "empty-body", Prop: prop})
		ps = append(ps, psched{Name: n("cold-slow-readers"), Backend: be, Clients: clients, Start: "cold", Outcome: "cacheable", Slow: true, Prop: prop})
		ps = append(ps, psched{Name: n("cold-client1-disconnects"), Backend: be, Clients: clients, Start: "cold", Outcome: "cacheable", Cancel: 1, Prop: prop})
		ps = append(ps, psched{Name: n("cold-client2-disconnects"), Backend: be, Clients: clients, Start: "cold", Outcome: "cacheable", Cancel: 2, Prop: prop})
		ps = append(ps, psched{Name: n("stale-client1-disconnects"), Backend: be, Clients: clients, Start: "stale-304", Outcome: "cacheable", Cancel: 1, Prop: prop})
		// the stale entry is removed while it is being revalidated
		ps = append(ps, psched{Name: n("stale-304-entry-removed-meanwhile"), Backend: be, Clients: clients, Start: "stale-304", Outcome: "cacheable", Evictor: "delete", Prop: prop})
	}
	return ps
}

func proxyRaceScenarios() []psched {
	var ps []psched
	for _, be := range []string{"memory", "file"} {
		n := func(s string) string { return s + "/" + be }
		ps = append(ps, psched{Name: n("race-cold"), Backend: be, Clients: 2, Start: "cold", Outcome: "cacheable", Prop: "C15"})
		ps = append(ps, psched{Name: n("race-fresh"), Backend: be, Clients: 2, Start: "fresh", Outcome: "cacheable", Prop: "C15"})
		ps = append(ps, psched{Name: n("race-stale-304"), Backend: be, Clients: 2, Start: "stale-304", Outcome: "cacheable", Prop: "C15"})
		ps = append(ps, psched{Name: n("race-stale-304-delete"), Backend: be, Clients: 2, Start: "stale-304", Outcome: "cacheable", Evictor: "delete", Prop: "C15"})
		ps = append(ps, psched{Name: n("race-no-store"), Backend: be, Clients: 2, Start: "cold", Outcome: "no-store", Prop: "C15"})
		ps = append(ps, psched{Name: n("race-hit-vs-expiry-revalidation"), Backend: be, Clients: 2, Start: "fresh", Outcome: "cacheable", AdvanceS: 101, Prop: "C15"})
	}
	return ps
}

func checkC05() *checkDef {
	return &checkDef{
		ID: "C05", Title: "Concurrent identical requests share one origin fetch; each gets a full answer", Level: "model_checking",
		LevelText: "Stateless exploration of all schedules (K preemptions, F delayed switches) of N=2 (3 thorough) clients calling the real Proxy.ServeHTTP for the same GET, with the first origin response held at a soft gate (by default every other thread runs until it blocks, so the clients really overlap at cost 0; releasing the answer while another client is part-way is one deviation), on a cold, fresh, stale(304) and stale(200) key, with cacheable, no-store and 500 outcomes, slow readers, and a thread that cancels one client's context at any point; both backends. Oracle per schedule: exactly one origin request for a cold/stale cacheable key and none for a fresh one; every client that did not hang up receives the complete current body with the origin's status.",
		LevelNote: "Trusted: instrumenter seams incl. the instrumented copy of x/sync/singleflight, in-memory response writer (mode ii), in-process origin with the context check of a real transport. Write-only metric counters and the read-only policy switches are not scheduling points (listed as demoted).",
		Technique: "stateless model checking of the implementation: preemption/delay-bounded exhaustive schedule enumeration of concurrent requests with a gated origin",
		DesignRef: "DESIGN.md section 4 C05",
		Rule:        "all schedules within K/F of each (backend, start state, outcome, disturbance) scenario; distinct by choice sequence; non-trivial = distinct (origin request count, per-client status/length) outcome",
		Assumptions: commonAssumptions,
		Runs: func(tier string) []run {
			k, n := 2, 2
			if tier == "thorough" {
				k, n = 3, 3
			}
			ps := coalescingScenarios("C05", n)
			if n < 3 {
				// three clients of which the middle one hangs up while it waits for the shared fetch: the third
				// still finds the one flight (or its result)
				for _, be := range []string{"memory", "file"} {
					ps = append(ps, psched{Name: "cold-client2-of-3-disconnects/" + be, Backend: be, Clients: 3, Start: "cold", Outcome: "cacheable", Cancel: 2, Prop: "C05"})
					ps = append(ps, psched{Name: "stale-client2-of-3-disconnects/" + be, Backend: be, Clients: 3, Start: "stale-304", Outcome: "cacheable", Cancel: 2, Prop: "C05"})
				}
			}
			return []run{{Pkg: "./proxy", Scenario: "proxy/sched", Params: ps, K: k, E: 1, F: 1, Horizon: 8000}}
		},
	}
}

func checkC16() *checkDef {
	return &checkDef{
		ID: "C16", Title: "No input makes the proxy panic or leave a request unanswered", Level: "exploration",
		Category: "exploration",
		LevelText: "Grammar-bounded exhaustive enumeration (the part of the quantifier this family reaches; coverage-guided fuzzing is another family and is not run): the range-spec space of C07 (10^7 strings), the byte-size alphabet up to length 5 plus overflow strings, PHC strings by single and pairwise field mutation (part counts 0-8, ids, versions, parameter lists, salt lengths 0-40 bytes, hash lengths, stray separators), CONNECT targets incl. malformed ones through the real server, request-target pairs through the key function, every request/response shape of C08 and C10 and every header class of C03 through the real handler: each parser runs under recover(), each request-shaped class must produce a well-formed response on the wire.",
		LevelNote: "Trusted: net/http's own request parser rejects some inputs with 400 before the handler runs (that is a well-formed response). Byte sequences outside the enumerated grammars are not covered.",
		Technique: "bounded-exhaustive grammar enumeration of every parser under recover() and of request/response shapes through the real server stack",
		DesignRef: "DESIGN.md section 4 C16",
		Rule:        "all strings of the stated grammars up to the stated lengths; distinct by string; non-trivial = distinct outcome class (accepted/rejected/panic, response class)",
		Assumptions: seqAssumptions,
		Runs: func(tier string) []run {
			ml := 6
			if tier == "thorough" {
				ml = 7
			}
			return []run{
				{Pkg: "./proxy/headers", Scenario: "headers/range", Params: map[string]any{"max_len": ml, "sizes": []int{0, 1, 36}}},
				ccRun(tier),
				{Pkg: "./utils/bytesize", Scenario: "bytesize/enum", Params: map[string]any{"max_len": 5, "max_round_trip": 4096}},
				{Pkg: "./utils/phc", Scenario: "phc/enum", Params: map[string]any{}, Workers: 8},
				{Pkg: "./proxy", Scenario: "proxy/connect-targets", Params: map[string]any{}},
				{Pkg: "./proxy", Scenario: "proxy/odd-targets", Params: map[string]any{}},
				{Pkg: "./proxy", Scenario: "proxy/range", Params: map[string]any{"backend": "memory"}},
				{Pkg: "./proxy", Scenario: "proxy/relay", Params: map[string]any{"backend": "memory"}},
				{Pkg: "./proxy", Scenario: "proxy/tunnel", Params: map[string]any{"backend": "memory", "depth": 2}},
				{Pkg: "./cache", Scenario: "cache/keys", Params: map[string]any{"max_segs": 2}, Workers: 1},
				// the dashboard API: every route x method x cookie kind, with and without a live session, and the
				// login bodies / stored hashes: whatever the answer, there is one and nothing panics
				{Pkg: "./webserver/api", Scenario: "api/routes", Params: map[string]any{}, Workers: 1},
				{Pkg: "./webserver/api", Scenario: "api/login", Params: map[string]any{}, Workers: 1},
				// every JSON value shape at every position of an update document
				{Pkg: "./config", Scenario: "config/doc-shapes", Params: map[string]any{}, Workers: 1},
				// a request whose target is the proxy's own address
				{Pkg: "./proxy", Scenario: "proxy/self-request", Params: map[string]any{}, Workers: 1},
				{Pkg: "./proxy", Scenario: "proxy/fresh", Params: map[string]any{"backend": "memory"}},
			}
		},
	}
}

func checkC17() *checkDef {
	return &checkDef{
		ID: "C17", Title: "Saved config reads back identically; CLI overrides win but are not saved", Level: "model_checking",
		LevelText: "Input enumeration: ByteSize round trip Unmarshal(Marshal(b))==b for every b in [0,2^21] plus unit boundaries and 2^n, 2^n+-1 (n<=62); Parse for every string over {0,1,9,B,K,M,G,T,x,-,SP} up to length 5 plus overflow strings against the reference ^[0-9]+[BKMGT]$ with arbitrary-precision arithmetic. Whole configuration: defaults with every property at each of its boundary values (one deviation) and all pairs of properties, persist -> load -> Read() of all 24 properties equal. Histories over {command-line override, API update x2, restart without flags} up to depth 4 for a property with a live listener, one without and a size: Read() yields the command-line value, the listening component is left with the effective value, the file never holds a command-line value and rules after the restart. Concurrency: all schedules (K=2) of a reader thread against an API update, with and without a command-line override: the reader sees the override at every moment (without one: the old value until the new one, never the old one again), subscribers are handed the effective value, the file gets the saved value.",
		LevelNote: "Trusted: reflection-based snapshot of all ConfigProp fields, the in-harness listener standing in for logging (the config package cannot import it). The flag-parsing path itself (global flag.CommandLine) is bound through Overwrite, which is what every flag's OnSet calls.",
		Technique: "bounded-exhaustive value/string enumeration against reference functions + explicit-state enumeration of override/update/restart histories on the implementation",
		DesignRef: "DESIGN.md section 4 C17",
		Rule:        "all listed values, strings, single and pairwise property deviations, and all event histories up to depth 4",
		Assumptions: seqAssumptions,
		Runs: func(tier string) []run {
			rt := 1 << 16
			if tier == "thorough" {
				rt = 1 << 21
			}
			return []run{
				{Pkg: "./utils/bytesize", Scenario: "bytesize/enum", Params: map[string]any{"max_len": 5, "max_round_trip": rt}},
				{Pkg: "./config", Scenario: "config/roundtrip", Params: map[string]any{}},
				{Pkg: "./config", Scenario: "config/override", Params: map[string]any{"depth": 4}},
				{Pkg: "./config", Scenario: "config/reader-sched", Params: map[string]any{}, K: 2, E: 0, Horizon: 20000},
			}
		},
	}
}

func checkC18() *checkDef {
	return &checkDef{
		ID: "C18", Title: "Only workable configurations are accepted; a rejected update changes nothing", Level: "model_checking",
		LevelText: "Explicit-state exploration of update sequences (depth 2, 3 thorough) over 24 update documents (valid, rejected by verification, ill-typed, null, multi-key documents in which a later or earlier key fails; both map iteration orders) with a recording listener on every property: after a rejected update Read() of all 24 properties, the listeners' call logs and the bytes of var/config.json are unchanged and no thread has panicked; after an accepted one exactly the addressed settings changed and the file loads to the same settings. Fault enumeration: the config-file write fails at Create and after every byte count of the file. Suspect values (lock_shards<=0, zero budget, uncreatable cache dir, ...) are judged operationally: if accepted, a cache and proxy are started under them and must serve a request. A cache with its janitor subscribed must survive a rejected interval. Concurrency (config/concurrent, all schedules within K): GET /api/config, PATCH /api/config and a reader of the setting at the same time; a valid against an invalid update; two valid updates: a refused value is never read, notified or saved, a valid update is never refused because of another one, and running settings and file agree afterwards. Every JSON value shape at every position of an update document: a value of the wrong JSON type (null included) is rejected. Listen addresses are judged by the real net.Listen.",
		LevelNote: "Trusted: vos seam for the config-file writes, reflection snapshot. Unbindable listen addresses are not judged (no sockets in the closed system).",
		Technique: "explicit-state enumeration of update-document sequences with a full before/after state comparison + exhaustive write-failure point enumeration + operational acceptance test",
		DesignRef: "DESIGN.md section 4 C18",
		Rule:        "all sequences of update documents up to the depth in both key orders; every write-failure byte count; every suspect value",
		Assumptions: seqAssumptions,
		Runs: func(tier string) []run {
			d := 2
			if tier == "thorough" {
				d = 3
			}
			return []run{
				{Pkg: "./config", Scenario: "config/update", Params: map[string]any{"depth": d}},
				{Pkg: "./config", Scenario: "config/persist-faults", Params: map[string]any{}},
				{Pkg: "./config", Scenario: "config/doc-shapes", Params: map[string]any{}, Workers: 1},
				// GET /api/config, PATCH /api/config and readers of a setting at the same time
				{Pkg: "./config", Scenario: "config/concurrent", Params: map[string]any{}, K: d - 1, E: 0, Horizon: 20000, Workers: 8},
				// accepted web-server settings handed to the real main.startWebServer
				{Pkg: "./.", Scenario: "main/startup", Params: map[string]any{}, Workers: 1},
				// updates accepted while command-line values are in force: the file gets the saved values only
				{Pkg: "./config", Scenario: "config/override", Params: map[string]any{"depth": 4}},
				{Pkg: "./proxy", Scenario: "proxy/config-workable", Params: map[string]any{}, Workers: 4},
			}
		},
	}
}

func checkC20() *checkDef {
	return &checkDef{
		ID: "C20", Title: "Dashboard API needs a live session obtained with the right password", Level: "model_checking",
		LevelText: "Handler under test: the one the web server hands to its listener (captured, i.e. middleware.Harden(mux) with the API registered as main does) over a migrated sqlite database in a scratch directory. Route enumeration: every registered (method, route) read from api.New(cfg).endpoints x 7 methods x 8 dead cookie kinds (absent, empty, random, logged-out, expired by 1 s / 11 min / 2 h on the virtual clock): 401 and no change to config, config file and user row; with a live session no registered route answers 401. Session histories over {login, bad login, request, logout, +49m, +51m, +1h, +1h1s, +2h, +16m (GC sweep)} up to depth 5 against the reference B5 (live from login until logout or expiry; the sliding extension is left free). Login matrix: 6 passwords x 6 stored hashes and 7 malformed stored hashes. Harden matrix: 7 Origin forms x 5 Sec-Fetch-Site values x 7 methods with a counting probe handler. Login histories: every sequence of up to three login bodies over 8 shapes (right, wrong, no password field, no user name, empty object, null, null password, truncated JSON): a login succeeds iff its own body carries the user name and the right password, whatever was sent before.",
		LevelNote: "Trusted: the overlay stub for the generated CSP constant, cheap Argon2 parameters in the stored test hashes (the verification code is the real one), the in-memory response writer. The SSE log stream is exercised only up to its first write (cancelled context).",
		Technique: "bounded-exhaustive route/method/cookie and header-matrix enumeration + explicit-state enumeration of session histories on the virtual clock against a reference session model",
		DesignRef: "DESIGN.md section 4 C20, appendix B5",
		Rule:        "all (route, method, cookie kind) triples; all event histories up to the depth starting with a login; all (password, stored hash) pairs; all (Origin, Sec-Fetch-Site, method) triples",
		Assumptions: seqAssumptions,
		Runs: func(tier string) []run {
			d := 5
			if tier == "thorough" {
				d = 6
			}
			return []run{
				{Pkg: "./webserver/api", Scenario: "api/routes", Params: map[string]any{}, Workers: 1},
				{Pkg: "./webserver/api", Scenario: "api/login", Params: map[string]any{}, Workers: 1},
				{Pkg: "./webserver/api", Scenario: "api/sessions", Params: map[string]any{"depth": d}},
				{Pkg: "./utils/phc", Scenario: "phc/enum", Params: map[string]any{}, Workers: 8},
				{Pkg: "./webserver/auth", Scenario: "auth/sched", Params: map[string]any{}, K: 2, E: 1, Horizon: 3000, Workers: 4},
				{Pkg: "./webserver/middleware", Scenario: "middleware/harden", Params: map[string]any{}, Workers: 1},
			}
		},
	}
}

type evSched struct {
	Name     string     `json:"name"`
	Threads  [][]string `json:"threads"`
	Pre      []string   `json:"pre"`
	Prop     string     `json:"prop"`
	LastWins bool       `json:"last_wins"`
	OthersNotified []int `json:"others_notified,omitempty"`
}

func eventRaceScenarios() []evSched {
	return []evSched{
		{Name: "subscribe-vs-fire", Pre: []string{"S0"}, Threads: [][]string{{"S1"}, {"F5"}}, Prop: "C15"},
		{Name: "unsubscribe-vs-fire", Pre: []string{"S0", "S1"}, Threads: [][]string{{"U0"}, {"F5"}}, Prop: "C15"},
		{Name: "unsubscribe-vs-unsubscribe", Pre: []string{"S0", "S1", "S2"}, Threads: [][]string{{"U0"}, {"U2"}}, Prop: "C15"},
	}
}

// component level: back-to-back limit / interval / budget changes; Destroy in both orders
func c19CacheScenarios() []sched {
	var ps []sched
	for _, be := range []string{"memory", "file"} {
		base := cp{Backend: be, Shards: 2, Limit: 100000, Interval: 1000}
		ps = append(ps, sched{Name: "limit-v1-v2/" + be, cp: base, Prop: "C19", Threads: [][]string{{"L:400", "L:800"}}, Final: []string{"Q"}, ExpectLimit: 800})
		ps = append(ps, sched{Name: "interval-v1-v2/" + be, cp: base, Prop: "C19", Threads: [][]string{{"I:500", "I:700"}}, Final: []string{"Q"}, ExpectIntervalMs: 700})
		ps = append(ps, sched{Name: "limit-vs-destroy/" + be, cp: base, Prop: "C19", Threads: [][]string{{"L:400"}, {"X"}}, Final: []string{"Q", "L:900", "Q"}, ExpectNotNotifiedAfterDestroy: true})
		// shut down in both ways one after the other (the context ends, then Destroy), then later changes of every
		// setting the cache follows: nobody is left to take them
		ps = append(ps, sched{Name: "changes-after-cancel-and-destroy/" + be, cp: base, Prop: "C19", Init: []string{"S:a:20", "C", "Q", "X", "Q"}, Threads: [][]string{{"I:5", "I:7", "I:9"}, {"L:900", "L:901"}}, Final: []string{"Q"}, ExpectNoStuckNotification: true, ExpectNotNotifiedAfterDestroy: true})
		// the context the cache was created with ends (that is how main shuts the cache down) and nothing else
		ps = append(ps, sched{Name: "changes-after-cancel/" + be, cp: base, Prop: "C19", Init: []string{"S:a:20", "C", "Q"}, Threads: [][]string{{"I:5", "I:7", "I:9"}, {"L:900", "L:901"}}, Final: []string{"Q"}, ExpectNoStuckNotification: true})
		ps = append(ps, sched{Name: "changes-after-destroy/" + be, cp: base, Prop: "C19", Init: []string{"S:a:20", "X", "Q"}, Threads: [][]string{{"I:5", "I:7", "I:9"}, {"L:900", "L:901"}}, Final: []string{"Q"}, ExpectNoStuckNotification: true, ExpectNotNotifiedAfterDestroy: true})
	}
	return ps
}

func checkC19() *checkDef {
	return &checkDef{
		ID: "C19", Title: "Components follow the latest setting; unsubscribing is safe in any order", Level: "model_checking",
		LevelText: "Event bus: every sequence over {subscribe i, unsubscribe i, fire} with 3 listeners up to depth 6 (7 thorough) on the real utils/event code, with a probe change after every step compared with the reference listener set (B6); all schedules of the notifier threads of back-to-back changes (the last value must win). Component level, differential: every history (depth <= 3) of run-time changes of max_cache_size, memory_budget_percent and cleanup_interval followed by a probe (stores, reads, clock advances); the cache must answer exactly like a cache constructed with the final values.",
		LevelNote: "Trusted: instrumenter (go statement -> scheduled thread), reference set model. Component level (caches, janitor, logging, request-path switches) is covered by the scenarios listed in the evidence.",
		Technique: "explicit-state enumeration of subscribe/unsubscribe/fire histories against a reference set model + exhaustive schedule enumeration of the asynchronous notifications",
		DesignRef: "DESIGN.md section 4 C19, appendix B6",
		Rule:        "all valid op sequences up to the depth (distinct by sequence; non-trivial = distinct subscribed set at the end) and all schedules within K/F/E of the notifier scenarios",
		Assumptions: commonAssumptions,
		Runs: func(tier string) []run {
			depth, k := 6, 2
			if tier == "thorough" {
				depth, k = 7, 3
			}
			sc := []evSched{
				{Name: "back-to-back-changes", Pre: []string{"S0"}, Threads: [][]string{{"F1", "F2"}}, Prop: "C19", LastWins: true},
				{Name: "back-to-back-changes-2-listeners", Pre: []string{"S0", "S1"}, Threads: [][]string{{"F1", "F2"}}, Prop: "C19", LastWins: true},
				// one listener is shut down while a change is being handed out: the others still get it, once
				{Name: "unsubscribe-first-vs-fire", Pre: []string{"S0", "S1", "S2"}, Threads: [][]string{{"U0"}, {"F5"}}, Prop: "C19", OthersNotified: []int{1, 2}},
				{Name: "unsubscribe-middle-vs-fire", Pre: []string{"S0", "S1", "S2"}, Threads: [][]string{{"U1"}, {"F5"}}, Prop: "C19", OthersNotified: []int{0, 2}},
				{Name: "unsubscribe-last-vs-fire", Pre: []string{"S0", "S1", "S2"}, Threads: [][]string{{"U2"}, {"F5"}}, Prop: "C19", OthersNotified: []int{0, 1}},
			}
			rs := []run{
				{Pkg: "./utils/event", Scenario: "event/seq", Params: map[string]int{"listeners": 3, "depth": depth}},
				{Pkg: "./utils/event", Scenario: "event/sched", Params: sc, K: k, E: 1, F: 2, Horizon: 2000, Workers: 4},
				{Pkg: "./config", Scenario: "config/listener-sched", Params: map[string]any{}, K: k, E: 1, F: 2, Horizon: 5000, Workers: 4},
				{Pkg: "./proxy", Scenario: "proxy/switches", Params: map[string]any{}, Workers: 8},
				{Pkg: "./cache", Scenario: "cache/sched", Params: c19CacheScenarios(), K: k, E: 1, F: 2, Horizon: 5000},
				{Pkg: "./cache", Scenario: "cache/settings", Params: map[string]any{"depth": 3}},
			}
			// (one run, i.e. a fresh set of worker processes, per case: the unchanged logging code leaks a
			// file descriptor per rebuild, and a worker that went through every case would run out of them)
			for _, only := range loggingCases {
				rs = append(rs, run{Pkg: "./logging", Scenario: "logging/sched", Params: map[string]any{}, K: 2, E: 1, F: 1, Horizon: 20000, Workers: 16, Only: only})
			}
			return rs
		},
	}
}

// schedScenariosOf extracts the cache/sched parameter sets of a check (they double as
// race-oracle scenarios for C15).
func schedScenariosOf(c *checkDef, tier string) []sched {
	var out []sched
	for _, r := range c.Runs(tier) {
		if r.Scenario == "cache/sched" {
			out = append(out, r.Params.([]sched)...)
		}
	}
	return out
}

func checkC15() *checkDef {
	return &checkDef{
		ID: "C15", Title: "Shared proxy state is free of data races", Level: "model_checking",
		LevelText: "The Go race detector is run inside the schedule explorer: for every explored schedule (K preemptions) of the concurrent scenarios of C01, C12, C13 and C14 (and the scenarios that exist only here), the detector judges whether two conflicting accesses are unordered by the happens-before relation of that schedule. The scheduler's hand-offs are hidden from the detector (runtime.RaceDisable, //go:norace shims, no maps/closures/fmt in shim code) and the shim lock/waitgroup/once emit exactly the acquire/release edges of the real primitives, so only the code's own synchronisation orders accesses. Each report is normalised to the unordered pair of innermost reservoir frames + access kinds and matched against known_findings.json. Race-only scenarios: every entry overwritten while a cleanup / eviction scan is part-way; run-time changes of memory budget and size limit racing stores; concurrent certificate issuance for one host and for different hosts; the configuration object marshalled (GET /api/config) while it is updated and subscribed to; the entry handed back by a store used by its caller (a harness function standing in for the proxy) while another request renews the stored one.",
		LevelNote: "Trusted: ThreadSanitizer's happens-before tracking and its bounded history (executions are a few hundred accesses long), the edge model of vsync (mirrors sync.RWMutex's readerSem/writerSem scheme), the discard log handler (A4). A race is reported once per worker process by the detector; the schedule recorded is the one during which it was first reported.",
		Technique: "happens-before race oracle evaluated on every schedule of a preemption-bounded exhaustive schedule enumeration of the implementation",
		DesignRef: "DESIGN.md section 3 E2, section 4 C15",
		Rule:        "all schedules within K/F/E of each concurrent scenario in a -race build; distinct by choice sequence; non-trivial = distinct outcome digest",
		Assumptions: commonAssumptions,
		Runs: func(tier string) []run {
			k := 1
			if tier == "thorough" {
				k = 2
			}
			var ps []sched
			for _, c := range []*checkDef{checkC01(), checkC12(), checkC13(), checkC14()} {
				for _, sc := range schedScenariosOf(c, "quick") {
					sc.Prop = "C15"
					sc.Checks = nil
					sc.ExpectPresent = nil
					ps = append(ps, sc)
				}
			}
			// scenarios that exist only for the race oracle: every stored entry is overwritten while the
			// janitor's scan (cleanup / eviction) is part-way through its snapshot of the entry table
			for _, be := range []string{"memory", "file"} {
				ps = append(ps, sched{Name: "overwrites-vs-cleanup-scan/" + be, cp: cp{Backend: be, Shards: 32, Limit: 100000, Interval: 1000}, Prop: "C15",
					Init: []string{"Se:a:40", "Se:c:30", "Se:d:30", "T"}, Threads: [][]string{{"S:a:20", "S:c:20", "S:d:20"}}, Final: []string{"Q"}})
				// run-time change of the memory budget / size limit / cleanup interval racing stores and a cycle
				ps = append(ps, sched{Name: "budget-change-vs-store/" + be, cp: cp{Backend: be, Shards: 32, Limit: 100000, Interval: 1000}, Prop: "C15",
					Init: []string{"S:a:20"}, Threads: [][]string{{"B:50", "L:5000"}, {"S:c:20", "G:a"}}, Final: []string{"T", "Q", "S:d:20"}})
				// the entry handed back by a store is used by its caller while another request renews the stored one
				ps = append(ps, sched{Name: "returned-entry-vs-metadata-update/" + be, cp: cp{Backend: be, Shards: 32, Limit: 100000, Interval: 1000}, Prop: "C15",
					Init: []string{"S:a:10"}, Threads: [][]string{{"S:a:20"}, {"U:a", "G:a"}}, Final: []string{"Q"}})
				ps = append(ps, sched{Name: "overwrites-vs-eviction-scan/" + be, cp: cp{Backend: be, Shards: 32, Limit: 500, Interval: 1000}, Prop: "C15",
					Init: []string{"S:a:200", "S:c:200", "S:d:200", "T"}, Threads: [][]string{{"S:a:20", "S:c:20", "S:d:20"}}, Final: []string{"Q"}})
			}
			rs := []run{
				{Pkg: "./cache", Scenario: "cache/sched", Params: ps, K: k, E: 1, Horizon: 5000, Race: true},
				{Pkg: "./utils/event", Scenario: "event/sched", Params: eventRaceScenarios(), K: k + 1, E: 1, Horizon: 2000, Race: true, Workers: 4},
				{Pkg: "./proxy", Scenario: "proxy/sched", Params: proxyRaceScenarios(), K: k, E: 1, F: 1, Horizon: 8000, Race: true},
				// certificate issuance: concurrent first requests for one host and for different hosts
				{Pkg: "./proxy/certs", Scenario: "certs/sched", Params: map[string]any{}, K: k, E: 0, Horizon: 3000, Race: true, Workers: 4},
				// dashboard sessions: requests with one cookie, logins, logouts and the session GC pass
				{Pkg: "./webserver/auth", Scenario: "auth/sched", Params: map[string]any{}, K: k + 1, E: 1, Horizon: 3000, Race: true, Workers: 4},
				// the logging component rebuilding the process-wide logger from several change notifications
			}
			for _, only := range loggingCases {
				rs = append(rs, run{Pkg: "./logging", Scenario: "logging/sched", Params: map[string]any{}, K: 1, E: 1, F: 1, Horizon: 20000, Race: true, Workers: 8, Only: only})
			}
			// the configuration object: GET /api/config (marshals it) against PATCH /api/config and subscribers
			rs = append(rs, run{Pkg: "./config", Scenario: "config/concurrent", Params: map[string]any{}, K: k, E: 0, Horizon: 20000, Race: true, Workers: 4})
			// the metrics structure: first polls of two dashboards and request traffic at once
			rs = append(rs, run{Pkg: "./metrics", Scenario: "metrics/sched", Params: map[string]any{}, K: k + 1, E: 1, Horizon: 3000, Race: true, Workers: 4})
			return rs
		},
	}
}

type seq struct {
	Name string `json:"name"`
	cp
	Alphabet []string `json:"alphabet"`
	Depth    int      `json:"depth"`
	Reopen   bool     `json:"reopen"`
}

var seqAlphabet = []string{"S:a:1", "S:a:7", "S:b:7", "S:c:7", "Se:a:7", "Sf:a:7:3", "S0:a", "G:a", "D:a", "U:a", "T", "A:3600001"}

func checkC01() *checkDef {
	return &checkDef{
		ID: "C01", Title: "Served bodies are complete, unmixed origin bodies of the requested resource", Level: "model_checking",
		LevelText: "Cache API layer: all schedules (K preemptions) of a reader that reads in two chunks (with a scheduling point between them and a ReadAt cross-check) against overwrite, failing/empty refresh, delete and a janitor cycle on the same and a colliding key, both backends; every body handed out must be byte-identical to the self-describing body of the (resource, version) its metadata names, with matching size, and a read that began after a replacement/removal completed must not return the replaced version (call/return history check). Proxy layer: two coalesced clients plus a non-coalesced Range request that replaces the entry by a version of another length between the flight's store and the followers' re-open (all schedules within K/F): body, ETag and Content-Length of every answer must belong to one version.",
		LevelNote: "Trusted: instrumenter seams; reads of an entry handle are atomic between harness yields (two chunks + ReadAt). Bounds: 2-3 threads, K preemptions, body sizes 20-40 bytes.",
		Technique: "stateless model checking of the implementation (preemption-bounded schedule enumeration) with a history oracle over self-describing bodies; exhaustive operation-history and fault-point enumeration at the proxy layer",
		DesignRef: "DESIGN.md section 4 C01",
		Rule:        "all schedules within K/F/E of each reader/writer/deleter/janitor scenario (distinct by choice sequence; non-trivial = distinct outcome digest of returned versions and end state)",
		Assumptions: commonAssumptions,
		Runs: func(tier string) []run {
			k := 2
			shards := []int{1, 32}
			if tier == "thorough" {
				k = 3
				shards = []int{1, 2, 32}
			}
			var ps []sched
			for _, be := range []string{"memory", "file"} {
				for _, sh := range shards {
					base := cp{Backend: be, Shards: sh, Limit: 100000, Interval: 1000}
					name := func(s string) string { return s + "/" + be + "/shards=" + itoa(sh) }
					chk := []string{"integrity"}
					ps = append(ps, sched{Name: name("read-vs-overwrite"), cp: base, Prop: "C01", Checks: chk,
						Init: []string{"S:a:40"}, Threads: [][]string{{"G:a", "G:a"}, {"S:a:20"}}, Final: []string{"G:a"}})
					ps = append(ps, sched{Name: name("read-vs-overwrite-delete"), cp: base, Prop: "C01", Checks: chk,
						Init: []string{"S:a:40"}, Threads: [][]string{{"G:a"}, {"S:a:20"}, {"D:a"}}, Final: []string{"G:a"}})
					ps = append(ps, sched{Name: name("read-vs-failed-refresh"), cp: base, Prop: "C01", Checks: chk,
						Init: []string{"S:a:40"}, Threads: [][]string{{"G:a", "G:a"}, {"Sf:a:40:10"}}, Final: []string{"G:a"}})
					ps = append(ps, sched{Name: name("read-vs-empty-refresh"), cp: base, Prop: "C01", Checks: chk,
						Init: []string{"S:a:40"}, Threads: [][]string{{"G:a", "G:a"}, {"S0:a"}}, Final: []string{"G:a"}})
					ps = append(ps, sched{Name: name("read-vs-janitor-vs-refresh"), cp: base, Prop: "C01", Checks: chk,
						Init: []string{"Se:a:40", "T"}, Threads: [][]string{{"G:a"}, {"S:a:20"}}, Final: []string{"Q", "G:a"}})
					ps = append(ps, sched{Name: name("read-vs-colliding-key"), cp: base, Prop: "C01", Checks: chk,
						Init: []string{"S:a:40", "S:b:30"}, Threads: [][]string{{"G:a"}, {"S:b:20"}, {"G:b"}}, Final: []string{"G:a", "G:b"}})
				}
			}
			// coalesced clients re-opening the stored entry while a non-coalesced Range request replaces it
			// by a new version of another length: body, validator and length must stay paired
			var pp []psched
			for _, be := range []string{"memory", "file"} {
				pp = append(pp, psched{Name: "coalesced-vs-range-overwrite/cold/" + be, Backend: be, Clients: 2, Start: "cold", Outcome: "cacheable", Overwrite: "range-get", Prop: "C01"})
				pp = append(pp, psched{Name: "coalesced-vs-range-overwrite/stale-200/" + be, Backend: be, Clients: 2, Start: "stale-200", Outcome: "cacheable", Overwrite: "range-get", Prop: "C01"})
			}
			return []run{
				{Pkg: "./cache", Scenario: "cache/sched", Params: ps, K: k, E: 1, Horizon: 5000},
				{Pkg: "./proxy", Scenario: "proxy/sched", Params: pp, K: k, E: 1, F: 1, Horizon: 8000},
				{Pkg: "./proxy", Scenario: "proxy/range", Params: map[string]any{"backend": "memory"}},
				{Pkg: "./proxy", Scenario: "proxy/range", Params: map[string]any{"backend": "file"}},
				{Pkg: "./proxy", Scenario: "proxy/fault", Params: map[string]any{}},
				// revalidation histories (all validator schemes incl. 304 answers that carry payload fields):
				// every 200 delivered must carry the content type and length the origin sent with that body
				{Pkg: "./proxy", Scenario: "proxy/reval", Params: map[string]any{"backend": "memory", "depth": 3}},
				{Pkg: "./proxy", Scenario: "proxy/reval", Params: map[string]any{"backend": "file", "depth": 3}},
				// sequential operation histories: the handle returned by every store and read is read back
				{Pkg: "./cache", Scenario: "cache/seq", Params: seqHistories(4)},
				{Pkg: "./proxy", Scenario: "proxy/wire", Params: map[string]any{}, Workers: 1},
			}
		},
	}
}

func checkC12() *checkDef {
	return &checkDef{
		ID: "C12", Title: "Reported cache size and entry count equal what is actually stored", Level: "model_checking",
		LevelText: "Explicit-state exploration of the real cache: every operation history over a 12-operation alphabet (stores of two sizes on colliding and distinct shards, overwrite, expired store, failing and empty source reader, get, delete, metadata update, janitor cycle, clock advance past expiry) up to depth 5 (6 thorough) on both backends, with the accounting equalities (internal size, map length, exported metrics, bytes actually readable, directory listing) checked after every step, plus reopening the directory after every history; every source-reader failure offset; and all schedules (K=2) of concurrent operations with a janitor cycle ending in quiescence.",
		LevelNote: "Trusted: instrumenter seams, virtual clock, the harness's internal view of the cache maps. Bounds: 3 keys, 2 sizes, depth 5/6, limit 10 bytes; concurrent part K preemptions. Crash points are modelled as abandoning the instance after any history and constructing a new one on the same directory.",
		Technique: "explicit-state enumeration of operation histories on the implementation with invariant checking per step + preemption-bounded schedule enumeration + source-failure point enumeration",
		DesignRef: "DESIGN.md section 4 C12",
		Rule:        "all sequences over the operation alphabet up to the depth bound on a fresh instance each (distinct by sequence; non-trivial = distinct final retrievable-set/size digest), and all schedules within K/F/E of the concurrent scenarios",
		Assumptions: commonAssumptions,
		Runs: func(tier string) []run {
			depth, k := 5, 2
			if tier == "thorough" {
				depth, k = 6, 3
			}
			var seqs []seq
			for _, be := range []string{"memory", "file"} {
				seqs = append(seqs, seq{Name: "histories/" + be, cp: cp{Backend: be, Shards: 2, Limit: 10, Interval: 1000}, Alphabet: seqAlphabet, Depth: depth, Reopen: be == "file"})
				// every failure offset of the source reader, on an absent and on a present key
				var fa []string
				for b := 0; b <= 7; b++ {
					fa = append(fa, "Sf:a:7:"+itoa(b))
				}
				fa = append(fa, "S:a:5", "G:a", "D:a", "T")
				seqs = append(seqs, seq{Name: "reader-failures/" + be, cp: cp{Backend: be, Shards: 1, Limit: 100, Interval: 1000}, Alphabet: fa, Depth: 3, Reopen: be == "file"})
			}
			var ps []sched
			for _, be := range []string{"memory", "file"} {
				for _, sh := range []int{1, 32} {
					base := cp{Backend: be, Shards: sh, Limit: 500, Interval: 1000}
					name := func(s string) string { return s + "/" + be + "/shards=" + itoa(sh) }
					ps = append(ps, sched{Name: name("store-delete-tick"), cp: base, Prop: "C12", Checks: []string{"counters"},
						Init:    []string{"S:a:300", "Se:c:100", "T"},
						Threads: [][]string{{"S:b:100"}, {"D:a", "S:c:50"}},
						Final:   []string{"Q", "T", "Q"}})
					// observed at the FIRST quiescent moment (no further cycle that would republish the size into the
					// exported metric): a store / delete completing while a cleanup or eviction pass is under way
					ps = append(ps, sched{Name: name("store-during-cleanup-pass"), cp: base, Prop: "C12", Checks: []string{"counters"},
						Init:    []string{"S:a:300", "Se:c:100", "T"},
						Threads: [][]string{{"S:b:100"}, {"D:a"}},
						Final:   []string{"Q"}})
					// a metadata refresh (the 304 path) racing a removal, an overwrite and the expiry sweep of the same key
					ps = append(ps, sched{Name: name("refresh-vs-delete"), cp: base, Prop: "C12", Checks: []string{"counters"},
						Init: []string{"S:a:100"}, Threads: [][]string{{"U:a"}, {"D:a"}}, Final: []string{"Q"}})
					ps = append(ps, sched{Name: name("refresh-vs-overwrite"), cp: base, Prop: "C12", Checks: []string{"counters"},
						Init: []string{"S:a:100"}, Threads: [][]string{{"U:a"}, {"S:a:10"}}, Final: []string{"Q"}})
					ps = append(ps, sched{Name: name("refresh-vs-expiry-sweep"), cp: base, Prop: "C12", Checks: []string{"counters"},
						Init: []string{"Se:a:100", "S:c:20", "T"}, Threads: [][]string{{"U:a"}, {"G:c"}}, Final: []string{"Q"}})
					ps = append(ps, sched{Name: name("overwrite-vs-get"), cp: base, Prop: "C12", Checks: []string{"counters"},
						Init:    []string{"S:a:100"},
						Threads: [][]string{{"S:a:50"}, {"G:a", "D:a"}},
						Final:   []string{"T", "Q"}})
				}
			}
			return []run{
				{Pkg: "./cache", Scenario: "cache/seq", Params: seqs},
				{Pkg: "./cache", Scenario: "cache/sched", Params: ps, K: k, E: 1, Horizon: 5000},
			}
		},
	}
}

func checkC14() *checkDef {
	return &checkDef{
		ID: "C14", Title: "No interleaving deadlocks the cache or a request", Level: "model_checking",
		LevelText: "Every schedule (within K preemptions, F delayed switches, E environment deviations) of small concurrent scenarios on the real, instrumented cache code runs to completion; the scheduler reports 'no enabled thread while a harness thread is unfinished' as deadlock. Exhaustive within the bounds, on both backends and shard counts 1, 2, (3,) 32.",
		LevelNote: "Trusted: the instrumenter's seams (every sync.*, channel, go, atomics wrapper and time call in reservoir/... is routed to the scheduler), the vsync model of RWMutex (writer preference, TryLock) and the bounds. Not covered: more than 4 threads, more than K preemptions.",
		Technique: "stateless model checking of the implementation: exhaustive preemption/delay-bounded schedule enumeration under a controlled scheduler",
		DesignRef: "DESIGN.md section 4 C14, section 2.4-2.5",
		Rule:        "stateless exploration of all schedules (preemption-bounded) of concurrent cache operations on colliding and distinct shards, store-triggered eviction, janitor ticks, config-change events and Destroy on the instrumented real code; an execution is distinct by its choice sequence and non-trivial when its observable outcome digest differs",
		Assumptions: commonAssumptions,
		Runs: func(tier string) []run {
			k := 2
			shards := []int{1, 2, 32}
			if tier == "thorough" {
				k = 3
				shards = []int{1, 2, 3, 32}
			}
			var ps []sched
			for _, be := range []string{"memory", "file"} {
				for _, sh := range shards {
					base := cp{Backend: be, Shards: sh, Limit: 500, Interval: 1000}
					name := func(s string) string { return s + "/" + be + "/shards=" + itoa(sh) }
					// store at the limit (store-triggered eviction) against get/delete on colliding and other shards, with a janitor tick pending
					ps = append(ps, sched{Name: name("evict-vs-ops"), cp: base, Prop: "C14",
						Init:    []string{"S:a:300", "S:c:300", "T"},
						Threads: [][]string{{"S:b:100"}, {"G:a", "D:c"}},
						Final:   []string{"Q", "X"}})
					// two concurrent stores at the limit on colliding keys + update
					ps = append(ps, sched{Name: name("evict-vs-evict"), cp: base, Prop: "C14",
						Init:    []string{"S:a:300", "S:c:300"},
						Threads: [][]string{{"S:b:100"}, {"S:d:100"}, {"U:a"}},
						Final:   []string{"T", "Q", "X"}})
					// deletes racing the cleanup cycle's scan/removal of expired entries; afterwards every shard must still be usable
					ps = append(ps, sched{Name: name("cleanup-vs-delete"), cp: base, Prop: "C14",
						Init:    []string{"Se:a:40", "Se:c:30", "T"},
						Threads: [][]string{{"D:a"}, {"D:c"}},
						Final:   []string{"Q", "S:b:10", "G:a", "S:d:10", "G:c", "X"}})
					// limit and interval change events racing a tick and a store at the limit
					ps = append(ps, sched{Name: name("config-vs-tick"), cp: base, Prop: "C14",
						Init:    []string{"S:a:300", "S:c:300"},
						Threads: [][]string{{"L:400", "I:500"}, {"T", "S:b:10"}},
						Final:   []string{"Q", "X"}})
					// memory budget and size limit changes racing stores and reads (the budget subscriber works under the map lock)
					ps = append(ps, sched{Name: name("budget-vs-ops"), cp: base, Prop: "C14",
						Init:    []string{"S:a:100"},
						Threads: [][]string{{"B:50", "L:400"}, {"S:c:100", "G:a"}},
						Final:   []string{"Q", "S:d:10", "G:a", "X"}})
					// back-to-back interval changes (1-buffered channel) racing Destroy
					ps = append(ps, sched{Name: name("config-vs-destroy"), cp: base, Prop: "C14",
						Init:    []string{"S:a:300"},
						Threads: [][]string{{"I:500", "I:700"}, {"X"}},
						Final:   []string{"Q"}})
					// shutdown: the context is cancelled (the janitor exits), settings still change, then Destroy:
					// "stopping the cache never blocks", whatever is still in flight towards the dead janitor
					ps = append(ps, sched{Name: name("shutdown-vs-config"), cp: base, Prop: "C14",
						Init:    []string{"S:a:300"},
						Threads: [][]string{{"C", "I:500", "I:700", "L:400"}, {"X"}},
						Final:   []string{"Q"}})
					ps = append(ps, sched{Name: name("cancel-changes-destroy"), cp: base, Prop: "C14",
						Init:    []string{"S:a:300", "C", "Q", "I:500", "I:700", "Q"},
						Threads: [][]string{{"X"}, {"L:400"}},
						Final:   []string{"Q"}})
				}
			}
			// proxied requests racing a janitor cycle and a run-time limit change (which makes the next store evict)
			var pp []psched
			for _, be := range []string{"memory", "file"} {
				n := func(s string) string { return s + "/" + be }
				pp = append(pp, psched{Name: n("requests-vs-tick-vs-limit-change/cold"), Backend: be, Clients: 2, Start: "cold", Outcome: "cacheable", TickS: 50, LimitTo: 30, Prop: "C14"})
				pp = append(pp, psched{Name: n("requests-vs-tick-vs-limit-change/stale"), Backend: be, Clients: 2, Start: "stale-304", Outcome: "cacheable", TickS: 50, LimitTo: 30, Prop: "C14"})
				pp = append(pp, psched{Name: n("request-vs-tick-vs-delete/fresh"), Backend: be, Clients: 1, Start: "fresh", Outcome: "cacheable", TickS: 50, Evictor: "delete", Prop: "C14"})
			}
			return []run{
				// a request whose target is the proxy's own address (must be answered, by the proxy ending the loop)
				{Pkg: "./proxy", Scenario: "proxy/self-request", Params: map[string]any{}, Workers: 1},
				{Pkg: "./cache", Scenario: "cache/sched", Params: ps, K: k, E: 1, Horizon: 5000},
				{Pkg: "./proxy", Scenario: "proxy/sched", Params: pp, K: k, E: 1, F: 1, Horizon: 8000},
				// every history (depth 3) of run-time changes of size limit, memory budget and cleanup interval followed by a probe must run to completion
				{Pkg: "./cache", Scenario: "cache/settings", Params: map[string]any{"depth": 3}},
				// sequential drivers whose cases must all run to completion as well
				{Pkg: "./cache", Scenario: "cache/seq", Params: seqHistories(4)},
				{Pkg: "./cache", Scenario: "cache/lru", Params: lruPopulations(3)},
			}
		},
	}
}

func itoa(i int) string {
	if i == 0 {
		return "0"
	}
	s := ""
	for i > 0 {
		s = string(rune('0'+i%10)) + s
		i /= 10
	}
	return s
}
