package main

type checkDef struct {
	ID          string
	Title       string
	Category    string // level_claimed.category
	LevelText   string
	LevelNote   string
	Technique   string
	DesignRef   string
	Level       string // evidence level
	Rule        string
	Assumptions []string
	Runs        func(tier string) []run
	Also        []string // other properties whose violation keys this check reports too
}

func (c *checkDef) Owns(prop string) bool {
	for _, a := range c.Also {
		if a == prop {
			return true
		}
	}
	return false
}

func racePackages() []string { return []string{"./cache"} }

type raceReport struct{ key, text string }

func parseRaceReports(txt string) []raceReport { return nil }

var commonAssumptions = []string{
	"context switches happen only at sync operations, channel operations, utils/atomics calls, spawn/exit and explicit harness yields (DESIGN.md A1)",
	"verdicts hold within the stated bounds: preemptions K, environment deviations E, thread/operation/key alphabet (A2)",
	"slog output is discarded, so synchronisation that exists only because a log line is enabled is not counted (A4)",
}

type cp struct {
	Backend  string `json:"backend"`
	Shards   int    `json:"shards"`
	Limit    int64  `json:"limit"`
	Interval int    `json:"interval_ms"`
}

type sched struct {
	Name string `json:"name"`
	cp
	Init    []string   `json:"init"`
	Threads [][]string `json:"threads"`
	Final   []string   `json:"final"`
	Checks  []string   `json:"checks"`
	Prop    string     `json:"prop"`
}

func allChecks() []*checkDef {
	return []*checkDef{checkC14()}
}

func checkC14() *checkDef {
	return &checkDef{
		ID: "C14", Title: "No interleaving deadlocks the cache or a request", Level: "model_checking",
		LevelText: "Every schedule (within K preemptions, F delayed switches, E environment deviations) of small concurrent scenarios on the real, instrumented cache code runs to completion; the scheduler reports 'no enabled thread while a harness thread is unfinished' as deadlock. Exhaustive within the bounds, on both backends and shard counts 1, 2, (3,) 32.",
		LevelNote: "Trusted: the instrumenter's seams (every sync.*, channel, go, atomics wrapper and time call in reservoir/... is routed to the scheduler), the vsync model of RWMutex (writer preference, TryLock) and the bounds. Not covered: more than 4 threads, more than K preemptions.",
		Technique: "stateless model checking of the implementation: exhaustive preemption/delay-bounded schedule enumeration under a controlled scheduler",
		DesignRef: "DESIGN.md section 4 C14, section 2.4-2.5",
		Rule:        "stateless exploration of all schedules (preemption-bounded) of concurrent cache operations on colliding and distinct shards, store-triggered eviction, janitor ticks, config-change events and Destroy on the instrumented real code; an execution is distinct by its choice sequence and non-trivial when its observable outcome digest differs",
		Assumptions: commonAssumptions,
		Runs: func(tier string) []run {
			k := 2
			shards := []int{1, 2, 32}
			if tier == "thorough" {
				k = 3
				shards = []int{1, 2, 3, 32}
			}
			var ps []sched
			for _, be := range []string{"memory", "file"} {
				for _, sh := range shards {
					base := cp{Backend: be, Shards: sh, Limit: 500, Interval: 1000}
					name := func(s string) string { return s + "/" + be + "/shards=" + itoa(sh) }
					// store at the limit (store-triggered eviction) against get/delete on colliding and other shards, with a janitor tick pending
					ps = append(ps, sched{Name: name("evict-vs-ops"), cp: base, Prop: "C14",
						Init:    []string{"S:a:300", "S:c:300", "T"},
						Threads: [][]string{{"S:b:100"}, {"G:a", "D:c"}},
						Final:   []string{"Q", "X"}})
					// two concurrent stores at the limit on colliding keys + update
					ps = append(ps, sched{Name: name("evict-vs-evict"), cp: base, Prop: "C14",
						Init:    []string{"S:a:300", "S:c:300"},
						Threads: [][]string{{"S:b:100"}, {"S:d:100"}, {"U:a"}},
						Final:   []string{"T", "Q", "X"}})
					// limit and interval change events racing a tick and a store at the limit
					ps = append(ps, sched{Name: name("config-vs-tick"), cp: base, Prop: "C14",
						Init:    []string{"S:a:300", "S:c:300"},
						Threads: [][]string{{"L:400", "I:500"}, {"T", "S:b:10"}},
						Final:   []string{"Q", "X"}})
					// back-to-back interval changes (1-buffered channel) racing Destroy
					ps = append(ps, sched{Name: name("config-vs-destroy"), cp: base, Prop: "C14",
						Init:    []string{"S:a:300"},
						Threads: [][]string{{"I:500", "I:700"}, {"X"}},
						Final:   []string{"Q"}})
				}
			}
			return []run{{Pkg: "./cache", Scenario: "cache/sched", Params: ps, K: k, E: 1, Horizon: 5000}}
		},
	}
}

func itoa(i int) string {
	if i == 0 {
		return "0"
	}
	s := ""
	for i > 0 {
		s = string(rune('0'+i%10)) + s
		i /= 10
	}
	return s
}
