//go:build verif

package api

import "reservoir/webserver/auth"

func resetSessions() { auth.VerifResetSessions() }
