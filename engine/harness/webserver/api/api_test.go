//go:build verif

package api

import (
	"context"
	"crypto/rand"
	"encoding/base64"
	"fmt"
	"net/http"
	"os"
	"sort"
	"strings"
	"testing"
	"time"

	"golang.org/x/crypto/argon2"

	"reservoir/config"
	"reservoir/db"
	"reservoir/db/models"
	"reservoir/db/stores"
	"reservoir/utils/phc"
	"reservoir/webserver"
	"reservoir/webserver/auth"
	"reservoir/zzverif/vnet"
	"reservoir/zzverif/vrun"
	"reservoir/zzverif/vsched"
	"reservoir/zzverif/vtime"
)

func TestVF(t *testing.T) { vrun.Main(t) }

func init() {
	vrun.Register("api/routes", scenarioRoutes)
	vrun.Register("api/sessions", scenarioSessions)
	vrun.Register("api/login", scenarioLogin)
}

const password = "placeholder"

// cheapHash builds a PHC string with tiny Argon2 parameters so that a login costs microseconds.
func cheapHash(pw string) string {
	salt := make([]byte, 16)
	rand.Read(salt)
	h := argon2.IDKey([]byte(pw), salt, 1, 8, 1, 32)
	return "$argon2id$v=19$m=8,t=1,p=1,l=32$" + base64.RawStdEncoding.EncodeToString(salt) + "$" + base64.RawStdEncoding.EncodeToString(h)
}

func setUserHash(hash string) {
	d, err := db.OpenMainDatabase()
	if err != nil {
		panic(err)
	}
	defer d.Close()
	if err := d.Exec("UPDATE users SET password_hash = ?, password_change_required = 1 WHERE username = 'admin'", hash); err != nil {
		panic(err)
	}
}

func userRow() string {
	us, err := stores.OpenUserStore()
	if err != nil {
		return "ERR " + err.Error()
	}
	defer us.Close()
	var row struct {
		PasswordHash string `db:"password_hash"`
		Req          bool   `db:"password_change_required"`
	}
	_ = row
	u, err := us.GetByUsername("admin")
	if err != nil || u == nil {
		return fmt.Sprint("ERR ", err)
	}
	return u.PasswordHash.String() + fmt.Sprint(u.PasswordChangeRequired)
}

type site struct {
	cfg *config.Config
	api *API
	h   http.Handler
}

// newSite wires the API into the web server exactly as main does and takes the handler the
// code hands to its listener (rule R8), i.e. middleware.Harden(mux).
func newSite() *site {
	os.MkdirAll("var", 0o755)
	os.Remove("var/database.db")
	os.Remove("var/database.db-wal")
	os.Remove("var/database.db-shm")
	if err := db.MigrateDatabases(); err != nil {
		panic(err)
	}
	setUserHash(cheapHash(password))
	cfg := config.NewDefault()
	a := New(cfg)
	ws := webserver.New()
	if err := ws.Register(a); err != nil {
		panic(err)
	}
	ctx, cancel := context.WithCancel(context.Background())
	cancel()
	addr := "127.0.0.1:0"
	delete(vsched.Captured, addr)
	ws.Listen(addr, make(chan error, 4), ctx)
	h, ok := vsched.Captured[addr].(http.Handler)
	if !ok {
		panic("the web server did not hand a handler to its listener")
	}
	return &site{cfg: cfg, api: a, h: h}
}

func (s *site) do(method, path, cookie, body string, hdrs vnet.H) *vnet.Resp {
	var b strings.Builder
	b.WriteString(method + " " + path + " HTTP/1.1\r\nHost: dash.test\r\n")
	if cookie != "-" {
		b.WriteString("Cookie: reservoir.sid=" + cookie + "\r\n")
	}
	for _, kv := range hdrs {
		b.WriteString(kv[0] + ": " + kv[1] + "\r\n")
	}
	if body != "" {
		b.WriteString("Content-Type: application/json\r\nContent-Length: " + fmt.Sprint(len(body)) + "\r\n")
	}
	b.WriteString("\r\n" + body)
	ctx, cancel := context.WithCancel(context.Background())
	cancel() // streaming endpoints stop at once
	return vnet.ServeRecorded(s.h, b.String(), ctx, nil)
}

func (s *site) login(pw string) (string, *vnet.Resp) {
	r := s.do("POST", "/api/auth/login", "-", `{"username":"admin","password":"`+pw+`"}`, nil)
	for _, sc := range r.Header.Values("Set-Cookie") {
		if strings.HasPrefix(sc, "reservoir.sid=") {
			v := strings.TrimPrefix(sc, "reservoir.sid=")
			if i := strings.IndexByte(v, ';'); i >= 0 {
				v = v[:i]
			}
			return v, r
		}
	}
	return "", r
}

func cfgDigest(cfg *config.Config) string {
	b, _ := os.ReadFile("var/config.json")
	return fmt.Sprint(cfg.Cache.MaxCacheSize.Read(), cfg.Logging.Level.Read(), cfg.Proxy.Listen.Read(), cfg.Cache.CleanupInterval.Read(), len(b))
}

type route struct {
	method, path string
	auth         bool
}

func (s *site) routes() []route {
	var rs []route
	for _, ep := range s.api.endpoints {
		for _, m := range ep.EndpointMethods() {
			rs = append(rs, route{m.Method, s.api.basePath + ep.Path(), m.RequiresAuth})
		}
	}
	sort.Slice(rs, func(i, j int) bool { return rs[i].path+rs[i].method < rs[j].path+rs[j].method })
	return rs
}

func bodyFor(r route) string {
	switch {
	case strings.HasSuffix(r.path, "/config") && r.method == "PATCH":
		return `{"cache":{"max_cache_size":"7G"}}`
	case strings.HasSuffix(r.path, "/change-password"):
		return `{"current_password":"` + password + `","new_password":"hacked"}`
	case r.method == "POST" || r.method == "PUT" || r.method == "PATCH":
		return `{}`
	}
	return ""
}

// scenarioRoutes (C20, E4): every registered route except login answers 401 and has no effect
// without the cookie of a live session.
func scenarioRoutes(c *vrun.Ctx) {
	ex := vsched.Run(vsched.Config{Horizon: 2000000}, func() {
		vtime.Reset()
		s := newSite()
		rs := s.routes()
		c.Res.Bounds["registered_routes"] = len(rs)
		methods := []string{"GET", "HEAD", "POST", "PUT", "PATCH", "DELETE", "OPTIONS"}
		// cookies that do not belong to a live session
		loggedOut, _ := s.login(password)
		s.do("POST", "/api/auth/logout", loggedOut, "", nil)
		expired := map[string]string{}
		for name, d := range map[string]time.Duration{"expired-1s": time.Hour + time.Second, "expired-11m": time.Hour + 11*time.Minute, "expired-2h": 3 * time.Hour} {
			ck, _ := s.login(password)
			expired[name] = ck
			_ = d
		}
		// sessions are created at the same instant; advance so that each has expired by its margin
		vtime.Advance(time.Hour + time.Second)
		vsched.Quiesce()
		dead := map[string]string{"absent": "-", "empty": "", "random": "AAAAAAAAAAAAAAAAAAAAAAAAAA", "logged-out": loggedOut, "expired-1s": expired["expired-1s"]}
		check := func(kind, ck string) {
			for _, r := range rs {
				if r.path == "/api/auth/login" {
					continue
				}
				for _, m := range methods {
					c.Case()
					before := cfgDigest(s.cfg) + userRow()
					resp := s.do(m, r.path, ck, bodyFor(route{m, r.path, true}), nil)
					after := cfgDigest(s.cfg) + userRow()
					registered := m == r.method
					c.Outcome(fmt.Sprintf("%s %v %d", kind, registered, resp.Status))
					if resp.Panic != "" {
						c.Violation("C16/api/panic/"+r.path, fmt.Sprintf("%s %s (cookie: %s) panics: %s", m, r.path, kind, resp.Panic), nil)
					}
					if registered && resp.Status != 401 {
						c.Violation("C20/routes/no-401-without-live-session/"+kind+"/"+m+" "+r.path, fmt.Sprintf("%s %s with cookie %s answered %d instead of 401 (RequiresAuth=%v)", m, r.path, kind, resp.Status, r.auth), nil)
					}
					if before != after {
						c.Violation("C20/routes/effect-without-live-session/"+kind+"/"+m+" "+r.path, fmt.Sprintf("%s %s with cookie %s changed the configuration or the user row (status %d)", m, r.path, kind, resp.Status), nil)
					}
					if resp.Status >= 200 && resp.Status < 300 && !registered && m != "HEAD" && m != "OPTIONS" {
						c.Violation("C20/routes/unregistered-method-served/"+m+" "+r.path, fmt.Sprintf("%s %s answered %d", m, r.path, resp.Status), nil)
					}
				}
			}
		}
		for kind, ck := range dead {
			check(kind, ck)
		}
		vtime.Advance(10 * time.Minute)
		check("expired-11m", expired["expired-11m"])
		vtime.Advance(2 * time.Hour)
		check("expired-2h", expired["expired-2h"])
		// with a live session no registered route answers 401
		live, lr := s.login(password)
		if live == "" {
			c.Violation("C20/login/correct-password-rejected", fmt.Sprintf("login with the right password failed: %d %s", lr.Status, lr.Body), nil)
			return
		}
		for _, r := range rs {
			if r.path == "/api/auth/login" || strings.HasSuffix(r.path, "/logout") || strings.HasSuffix(r.path, "/change-password") {
				continue
			}
			c.Case()
			resp := s.do(r.method, r.path, live, bodyFor(r), nil)
			c.Outcome(fmt.Sprintf("live %d", resp.Status))
			if resp.Panic != "" {
				c.Violation("C16/api/panic/"+r.path, fmt.Sprintf("%s %s with a live session panics: %s", r.method, r.path, resp.Panic), nil)
			} else if resp.Status == 401 {
				c.Violation("C20/routes/401-with-live-session/"+r.method+" "+r.path, fmt.Sprintf("%s %s with a live session answered 401", r.method, r.path), nil)
			}
		}
		c.Sample(map[string]any{"routes": len(rs), "example": "PATCH /api/config with a logged-out cookie must answer 401 and change nothing"})
	})
	if ex.Status != "complete" {
		c.Violation("C16/api/abort/"+ex.Status, ex.Status+": "+ex.Detail+" "+ex.PanicVal+"\n"+ex.Stack, nil)
	}
}

// scenarioSessions (C20, E3): histories over login / request / logout / clock advance / GC
// against the reference B5.
func scenarioSessions(c *vrun.Ctx) {
	var p struct {
		Depth int `json:"depth"`
	}
	c.Params(&p)
	events := []string{"login", "bad-login", "req", "logout", "+49m", "+51m", "+1h", "+1h1s", "+2h", "+16m"}
	n := len(events)
	total := 1
	for i := 0; i < p.Depth; i++ {
		total *= n
	}
	for hi := 0; hi < total; hi++ {
		if !c.Mine(hi) {
			continue
		}
		if hi%64 == 0 && c.Expired() {
			return
		}
		hist := make([]string, p.Depth)
		x := hi
		for i := p.Depth - 1; i >= 0; i-- {
			hist[i] = events[x%n]
			x /= n
		}
		if hist[0] != "login" {
			continue // histories start with a login; the rest is covered by scenarioRoutes
		}
		c.Case()
		var problem, kind string
		pattern := ""
		ex := vsched.Run(vsched.Config{Horizon: 2000000}, func() {
			vtime.Reset()
			resetSessions()
			s := siteOnce()
			auth.StartSessionGC()
			var cookie string
			var dead []string
			var lo, hi time.Time // B5: must be accepted until lo, must be refused after hi
			loggedOut := true
			for step, ev := range hist {
				now := vtime.Peek()
				switch ev {
				case "login":
					ck, r := s.login(password)
					if ck == "" {
						problem, kind = fmt.Sprintf("step %d: login with the right password failed (%d)", step, r.Status), "correct-password-rejected"
						return
					}
					if cookie != "" && (loggedOut || now.After(hi)) && cookie != ck {
						dead = append(dead, cookie) // logged out or expired for good: no later event may bring it back
					}
					if cookie != "" && (loggedOut || now.After(hi)) && cookie == ck {
						problem, kind = fmt.Sprintf("step %d: the login issued the session id of a session that was logged out or had expired", step), "dead-session-id-reissued"
						return
					}
					cookie, loggedOut = ck, false
					lo, hi = now.Add(time.Hour), now.Add(time.Hour)
				case "bad-login":
					ck, r := s.login("wrong")
					if ck != "" || (r.Status >= 200 && r.Status < 300 && !strings.Contains(r.Body, "Already")) {
						problem, kind = fmt.Sprintf("step %d: login with a wrong password succeeded (%d)", step, r.Status), "wrong-password-accepted"
						return
					}
				case "req":
					for _, d := range dead {
						if rd := s.do("GET", "/api/auth/me", d, "", nil); rd.Status != 401 {
							problem, kind = fmt.Sprintf("step %d: the cookie of a session that had been logged out / had expired before a later login was answered %d instead of 401", step, rd.Status), "dead-session-accepted/after-later-login"
							return
						}
					}
					r := s.do("GET", "/api/auth/me", cookie, "", nil)
					accepted := r.Status != 401
					switch {
					case loggedOut || now.After(hi):
						pattern += "x"
						if accepted {
							why := "logged out"
							if !loggedOut {
								why = fmt.Sprintf("expired %v ago", now.Sub(hi))
							}
							problem, kind = fmt.Sprintf("step %d: a request with a session that is no longer live (%s) was answered %d instead of 401", step, why, r.Status), "dead-session-accepted/"+strings.Fields(why)[0]
							return
						}
					case now.Before(lo): // the instant of expiry itself is free (is the session still live at exactly +1h?)
						pattern += "o"
						if !accepted {
							problem, kind = fmt.Sprintf("step %d: a request with a live session (%v before its expiry) was answered 401", step, lo.Sub(now)), "live-session-refused"
							return
						}
						// the implementation may extend the session
						if e := now.Add(time.Hour); e.After(hi) {
							hi = e
						}
					default:
						pattern += "?"
						if accepted {
							if e := now.Add(time.Hour); e.After(hi) {
								hi = e
							}
						}
					}
				case "logout":
					s.do("POST", "/api/auth/logout", cookie, "", nil)
					loggedOut = true
				default:
					d, _ := time.ParseDuration(strings.TrimPrefix(ev, "+"))
					vtime.Advance(d)
					vsched.Quiesce()
				}
			}
		})
		if ex.Status != "complete" && problem == "" {
			problem, kind = ex.Status+": "+ex.Detail+ex.PanicVal, "abort"
		}
		c.Outcome(pattern)
		if problem != "" {
			c.SetCase(strings.Join(hist, " "))
			c.Violation("C20/sessions/"+kind, problem+" | history "+strings.Join(hist, " "), nil)
		}
		if hi%211 == 0 {
			c.Sample(map[string]any{"history": hist, "pattern": pattern})
		}
	}
	c.Res.Bounds["depth"] = p.Depth
	c.Res.Bounds["events"] = events
}

var theSite *site

func siteOnce() *site {
	if theSite == nil {
		theSite = newSite()
	}
	return theSite
}

// scenarioLogin (C20, E4): login succeeds iff the stored hash verifies the password; malformed
// stored hashes give an error response, never a panic.
func scenarioLogin(c *vrun.Ctx) {
	pws := []string{"", "a", "placeholder", "Placeholder", "placeholder ", strings.Repeat("p", 100)}
	ex := vsched.Run(vsched.Config{Horizon: 2000000}, func() {
		vtime.Reset()
		s := siteOnce()
		for _, stored := range pws {
			setUserHash(cheapHash(stored))
			for _, try := range pws {
				c.Case()
				resetSessions()
				ck, r := s.login(try)
				ok := ck != ""
				c.Outcome(fmt.Sprintf("%v/%d", ok, r.Status))
				if r.Panic != "" {
					c.Violation("C16/api/login-panic", "login panics: "+r.Panic, nil)
				}
				if ok != (try == stored) {
					c.Violation("C20/login/wrong-decision", fmt.Sprintf("stored hash of %q, login with %q: success=%v (status %d)", stored, try, ok, r.Status), nil)
				}
			}
		}
		b64 := func(n int) string { return base64.RawStdEncoding.EncodeToString(make([]byte, n)) }
		malformed := []string{"", "x", "$argon2id$v=19$m=8,t=1,p=1$" + b64(24) + "$" + b64(32), "$argon2id$v=19$m=8,t=1,p=1$" + b64(16) + "$", "$argon2i$v=19$m=8,t=1,p=1$" + b64(16) + "$" + b64(32), "$argon2id$v=19$m=0,t=0,p=0$" + b64(16) + "$" + b64(32), strings.Repeat("$", 9)}
		for _, h := range malformed {
			c.Case()
			setUserHash(h)
			resetSessions()
			ck, r := s.login(password)
			c.Outcome(fmt.Sprintf("malformed/%d", r.Status))
			if r.Panic != "" || r.Dropped {
				c.Violation("C16/api/login-panic-on-malformed-hash", fmt.Sprintf("stored hash %q: login panics / gives no response: %s", h, r.Panic), nil)
			}
			if ck != "" {
				c.Violation("C20/login/malformed-hash-accepted", fmt.Sprintf("stored hash %q: login succeeded", h), nil)
			}
			if r.Status < 400 {
				c.Violation("C20/login/malformed-hash-no-error", fmt.Sprintf("stored hash %q: login answered %d", h, r.Status), nil)
			}
		}
		setUserHash(cheapHash(password))
		// the decision depends on this request's body alone: every history of login bodies up to
		// depth 3 over complete, partial, empty and malformed documents; a login succeeds iff its own
		// body carries the user name and the right password, whatever was sent before
		type lb struct {
			body string
			ok   bool
		}
		bodies := []lb{
			{`{"username":"admin","password":"` + password + `"}`, true},
			{`{"username":"admin","password":"wrong"}`, false},
			{`{"username":"admin"}`, false},
			{`{"password":"` + password + `"}`, false},
			{`{}`, false},
			{`null`, false},
			{`{"username":"admin","password":null}`, false},
			{`{"username":"admin","password":`, false},
		}
		var walk func(hist []int)
		walk = func(hist []int) {
			if len(hist) > 0 {
				c.Case()
				resetSessions()
				var names []string
				for i, bi := range hist {
					r := s.do("POST", "/api/auth/login", "-", bodies[bi].body, nil)
					names = append(names, bodies[bi].body)
					ok := false
					for _, sc := range r.Header.Values("Set-Cookie") {
						if strings.HasPrefix(sc, "reservoir.sid=") && !strings.HasPrefix(sc, "reservoir.sid=;") {
							ok = true
						}
					}
					if r.Panic != "" || r.Dropped {
						c.Violation("C16/api/login-panic", fmt.Sprintf("login history %v: request %d panics / gets no response: %s", names, i+1, r.Panic), nil)
					}
					if ok != bodies[bi].ok {
						c.Violation("C20/login/decision-depends-on-history", fmt.Sprintf("login history %v: request %d success=%v (status %d), its own body warrants %v", names, i+1, ok, r.Status, bodies[bi].ok), nil)
					}
					if i == len(hist)-1 {
						c.Outcome(fmt.Sprintf("hist/%v/%d", ok, r.Status))
					}
				}
			}
			if len(hist) == 3 {
				return
			}
			for i := range bodies {
				walk(append(append([]int{}, hist...), i))
			}
		}
		walk(nil)
	})
	if ex.Status != "complete" {
		c.Violation("C16/api/abort/"+ex.Status, ex.Status+": "+ex.Detail+" "+ex.PanicVal, nil)
	}
	c.Sample(map[string]any{"stored": "hash of 'placeholder'", "try": "Placeholder", "expect": "401"})
	_ = models.User{}
	_ = phc.PHC{}
}
