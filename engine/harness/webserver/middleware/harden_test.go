//go:build verif

package middleware

import (
	"fmt"
	"net/http"
	"net/url"
	"testing"

	"reservoir/zzverif/vnet"
	"reservoir/zzverif/vrun"
)

func TestVF(t *testing.T) { vrun.Main(t) }

func init() { vrun.Register("middleware/harden", scenarioHarden) }

// scenarioHarden (C20, E4): a request that declares itself cross-site, or whose Origin host
// differs from Host, never reaches a handler; preflights are refused.
func scenarioHarden(c *vrun.Ctx) {
	entered := 0
	h := Harden(http.HandlerFunc(func(w http.ResponseWriter, r *http.Request) { entered++; w.WriteHeader(204) }))
	origins := []string{"", "http://dash.test", "https://dash.test", "http://evil.test", "null", "http://dash.test.evil.test", "http://dash.test:8080"}
	sites := []string{"", "same-origin", "same-site", "none", "cross-site"}
	methods := []string{"GET", "HEAD", "POST", "PUT", "PATCH", "DELETE", "OPTIONS"}
	for _, o := range origins {
		for _, s := range sites {
			for _, m := range methods {
				c.Case()
				raw := m + " /api/config HTTP/1.1\r\nHost: dash.test\r\n"
				if o != "" {
					raw += "Origin: " + o + "\r\n"
				}
				if s != "" {
					raw += "Sec-Fetch-Site: " + s + "\r\n"
				}
				raw += "\r\n"
				before := entered
				resp := vnet.ServeRecorded(h, raw, nil, nil)
				reached := entered > before
				foreignOrigin := false
				if o != "" {
					u, err := url.Parse(o)
					foreignOrigin = err != nil || u.Host != "dash.test"
				}
				crossSite := s == "cross-site" || foreignOrigin
				c.Outcome(fmt.Sprintf("cross=%v reached=%v status=%d", crossSite, reached, resp.Status))
				if crossSite && reached {
					cls := "foreign-origin"
					if s == "cross-site" && !foreignOrigin {
						cls = "sec-fetch-site-cross-site"
					} else if s != "" {
						cls = "foreign-origin-with-sec-fetch-site=" + s
					}
					c.Violation("C20/harden/cross-site-request-reached-handler/"+cls, fmt.Sprintf("%s with Origin=%q Sec-Fetch-Site=%q (Host dash.test) reached the handler (status %d)", m, o, s, resp.Status), nil)
				}
				if m == "OPTIONS" && o != "" && reached {
					c.Violation("C20/harden/preflight-reached-handler", fmt.Sprintf("OPTIONS preflight with Origin=%q reached the handler", o), nil)
				}
				// (Whether every same-site request is let through is not part of the statement: the
				// middleware refuses e.g. Origin + Sec-Fetch-Site: none, which is its business.)
			}
		}
	}
	c.Sample(map[string]any{"origin": "http://evil.test", "sec_fetch_site": "", "expect": "403 before any handler"})
}
