//go:build verif

package auth

import "reservoir/utils/syncmap"

// VerifResetSessions gives the harness a fresh session table (a process restart does the same).
// Overlay-injected; not part of the repository.
func VerifResetSessions() {
	sessionStore = syncmap.New[string, *Session]()
}
