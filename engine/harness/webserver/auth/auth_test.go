//go:build verif

package auth

import (
	"strconv"
	"testing"
	"time"

	"reservoir/zzverif/vrun"
	"reservoir/zzverif/vsched"
	"reservoir/zzverif/vtime"
)

func TestVF(t *testing.T) { vrun.Main(t) }

func init() { vrun.Register("auth/sched", scenarioSched) }

// scenarioSched (C15: "dashboard sessions"): the session table under concurrent requests and the
// periodic session GC. Run in the race build; the state oracle (every schedule) is that a session
// that is live stays usable and an expired one is gone after the GC pass.
func scenarioSched(c *vrun.Ctx) {
	type scen struct {
		name string
		body func(res *[4]bool)
	}
	var live, dead *Session
	setup := func() {
		vtime.Reset()
		VerifResetSessions()
		gcRunning = false
		live = CreateSession(1)
		dead = CreateSession(2)
		dead.ExpiresAt = vtime.Now().Add(-time.Second)
		StartSessionGC()
		vsched.Quiesce()
	}
	scens := []scen{
		{"gc-pass-vs-login", func(res *[4]bool) {
			vsched.GoHarness("tick", func() { vtime.Advance(gcInterval) })
			vsched.GoHarness("login", func() { s := CreateSession(3); _, res[0] = GetSession(s.ID) })
			vsched.JoinHarness()
			vsched.Quiesce()
			_, res[1] = GetSession(live.ID)
			_, gone := sessionStore.Get(dead.ID)
			res[2] = !gone
			res[3] = true
		}},
		{"same-cookie-twice-in-extension-window", func(res *[4]bool) {
			live.ExpiresAt = vtime.Now().Add(5 * time.Minute) // inside the window in which a request extends the session
			vsched.GoHarness("request-1", func() { _, res[0] = GetSession(live.ID) })
			vsched.GoHarness("request-2", func() { _, res[1] = GetSession(live.ID) })
			vsched.JoinHarness()
			s, ok := GetSession(live.ID)
			res[2] = ok && s.ExpiresAt.After(vtime.Now().Add(50*time.Minute))
			res[3] = true
		}},
		{"gc-pass-vs-extension-and-logout", func(res *[4]bool) {
			live.ExpiresAt = vtime.Now().Add(gcInterval + 5*time.Minute)
			other := CreateSession(4)
			vsched.GoHarness("tick", func() { vtime.Advance(gcInterval) })
			vsched.GoHarness("request", func() { vsched.Yield("request arrives"); _, res[0] = GetSession(live.ID) })
			vsched.GoHarness("logout", func() { other.Destroy() })
			vsched.JoinHarness()
			vsched.Quiesce()
			_, res[1] = GetSession(live.ID)
			_, still := sessionStore.Get(other.ID)
			res[2] = !still
			res[3] = true
		}},
		{"logout-vs-request-in-extension-window", func(res *[4]bool) {
			// a logout must end the session also when another request with the same cookie is being
			// answered (and extends the session) at that moment
			live.ExpiresAt = vtime.Now().Add(5 * time.Minute)
			vsched.GoHarness("request", func() { GetSession(live.ID) })
			vsched.GoHarness("logout", func() {
				if s, ok := GetSession(live.ID); ok {
					s.Destroy()
				}
			})
			vsched.JoinHarness()
			_, again := GetSession(live.ID)
			res[0], res[1], res[2], res[3] = true, true, !again, again
		}},
	}
	for _, sc := range scens {
		sc := sc
		var res [4]bool
		body := func() {
			res = [4]bool{}
			setup()
			sc.body(&res)
		}
		c.Explore(vrun.ExploreOpts{Name: sc.name, K: -1, E: -1, Prop: "C15", Body: body, Check: func(x *vsched.Exec) {
			out := ""
			for _, b := range res {
				out += strconv.FormatBool(b)[:1]
			}
			c.Outcome(sc.name + ":" + out)
			if !res[0] || !res[1] || !res[2] {
				c.Violation("C20/sessions-sched/"+sc.name+"/live-session-lost-or-dead-session-kept", "after the concurrent phase a live session is refused or an expired / logged-out one is still in the table: "+out, x)
			}
		}})
	}
}
