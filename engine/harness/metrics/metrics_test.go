//go:build verif

package metrics

import (
	"encoding/json"
	"testing"

	"reservoir/zzverif/vrun"
	"reservoir/zzverif/vsched"
)

func TestVF(t *testing.T) { vrun.Main(t) }

func init() { vrun.Register("metrics/sched", scenarioSched) }

// scenarioSched (C15): the process-wide metrics structure while it is collected, updated and
// serialised at once: the first polls of two dashboard tabs (system collector + JSON snapshot)
// overlapping each other and the counters being bumped by request handling. Race build.
func scenarioSched(c *vrun.Ctx) {
	var lens [3]int
	body := func() {
		Global = NewMetrics() // a fresh process: nothing has been collected yet
		poll := func(i int, all bool) func() {
			return func() {
				Global.System.Collect()
				var b []byte
				if all {
					Global.RunCollectors()
					b, _ = json.Marshal(Global)
				} else {
					b, _ = json.Marshal(Global.System)
				}
				lens[i] = len(b)
			}
		}
		vsched.GoHarness("poll-system", poll(0, false))
		vsched.GoHarness("poll-all", poll(1, true))
		vsched.GoHarness("traffic", func() {
			Global.Cache.CacheHits.Increment()
			Global.Cache.BytesCached.Add(10)
			Global.Requests.BytesServed.Add(5)
			lens[2] = 1
		})
		vsched.JoinHarness()
	}
	c.Explore(vrun.ExploreOpts{Name: "first-polls-and-traffic", K: -1, E: -1, Prop: "C15", Body: body, Check: func(x *vsched.Exec) {
		c.Outcome("first-polls-and-traffic")
		if lens[0] == 0 || lens[1] == 0 {
			c.Violation("C15/metrics/empty-snapshot", "a metrics snapshot came out empty", x)
		}
	}})
}
