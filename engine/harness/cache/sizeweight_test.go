//go:build verif

package cache

import (
	"fmt"
	"sort"
	"strings"
	"time"

	"reservoir/utils/bytesize"
	"reservoir/zzverif/vrun"
	"reservoir/zzverif/vsched"
	"reservoir/zzverif/vtime"
)

func init() { vrun.Register("cache/size-weight", scenarioSizeWeight) }

// scenarioSizeWeight (C13: "least-recently-used entries first (larger entries weighted up)"): a small
// entry, then (1 ms later each) two entries that are 2 MiB larger; the limit is lowered so that removing
// ONE of the large entries reaches the target. The statement gives no figure for the weighting; what is
// demanded here is only that it is observable at all: a 2 MiB larger entry used a single millisecond
// later outranks the small one. (A weighting below half a millisecond per MiB - against ages that are
// counted in milliseconds to hours - is taken for no weighting.) So the older of the two large entries
// goes, and the small entry, although the least recently used of all, stays.
// Both triggers (periodic cycle, store) and both orders of use are enumerated.
func scenarioSizeWeight(c *vrun.Ctx) {
	const big = 2 << 20
	for _, be := range []string{"memory", "file"} {
		for _, trig := range []string{"tick", "store"} {
			for _, gapMs := range []int{0, 1, 5} {
				c.Case()
				desc := fmt.Sprintf("%s trigger=%s gap=%dms", be, trig, gapMs)
				var survivors []string
				var trigErr string
				ex := vsched.Run(vsched.Config{Horizon: 400000, AtomicFilter: isPoint}, func() {
					h := newHCache(cacheParams{Backend: be, Shards: 32, Limit: 1 << 40, Interval: 3600_000})
					put := func(k string, n int) {
						if _, err := h.c.Cache(h.keys[k], strings.NewReader(string(make([]byte, n))), vtime.Now().Add(24*time.Hour), vmeta{R: k, V: 1, N: n}); err != nil {
							panic("population store failed: " + err.Error())
						}
					}
					put("a", 1000)
					vtime.Advance(time.Duration(gapMs) * time.Millisecond)
					put("c", big)
					vtime.Advance(time.Duration(gapMs) * time.Millisecond)
					put("d", big)
					// 1000 + 4 MiB stored; limit 4 MiB: at/over the limit, target 80 % = 3.2 MiB: one large entry has to go
					h.cfg.Cache.MaxCacheSize.Overwrite(bytesize.ByteSize(4 << 20))
					vsched.Quiesce()
					if trig == "tick" {
						vtime.Advance(time.Hour)
						vsched.Quiesce()
					} else {
						vtime.Advance(50 * time.Millisecond)
						if _, err := h.c.Cache(h.keys["f"], strings.NewReader("0123456789"), vtime.Now().Add(time.Hour), vmeta{R: "f", V: 1, N: 10}); err != nil {
							trigErr = errClass(err)
						}
					}
					for _, k := range []string{"a", "c", "d"} {
						if _, _, err := h.c.GetMetadata(h.keys[k]); err == nil {
							survivors = append(survivors, k)
						}
					}
					h.cancel()
					vsched.Quiesce()
				})
				sort.Strings(survivors)
				got := strings.Join(survivors, ",")
				c.Outcome(desc + ":" + got + ":" + trigErr)
				if ex.Status != "complete" {
					c.Violation("C13/size-weight/execution-"+ex.Status, desc+": "+ex.Detail, nil)
					continue
				}
				// gap 0: all three were used in the same instant: one large entry goes (either)
				want := map[string]bool{"a,d": true}
				if gapMs == 0 {
					want["a,c"] = true
				}
				if !want[got] {
					c.SetCase(desc)
					c.Violation("C13/size-weight/larger-entry-not-weighted-up/"+trig, fmt.Sprintf("%s: stored a (1000 B), then c and d (2 MiB each), %d ms apart; the limit dropped to 4 MiB (target 3.2 MiB), so removing one large entry suffices and the older large one (c) outranks the small one. Survivors: [%s], expected [a,d]", desc, gapMs, got), nil)
				}
			}
		}
	}
}
