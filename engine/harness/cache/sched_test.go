//go:build verif

package cache

import (
	"encoding/json"
	"fmt"
	"sort"
	"strings"

	"reservoir/zzverif/vnet"
	"reservoir/zzverif/vrun"
	"reservoir/zzverif/vsched"
	"reservoir/zzverif/vtime"
)

var vnetIdentify = vnet.Identify

// schedParams describes one concurrent scenario on a cache.
type schedParams struct {
	Name string `json:"name"`
	cacheParams
	Init    []string   `json:"init"`    // run by the main thread before the others start
	Threads [][]string `json:"threads"` // one harness thread each
	Final   []string   `json:"final"`   // run by the main thread after the join (e.g. T, Q, X)
	Checks  []string   `json:"checks"`  // oracles: "counters", "integrity"
	Prop    string     `json:"prop"`
	// ExpectPresent: keys that must be retrievable at the end in every schedule (C13:
	// a fresh entry is never removed by the cleanup path).
	ExpectPresent []string `json:"expect_present"`
	// C19 component level: effective values after quiescence
	ExpectLimit                   int64 `json:"expect_limit"`
	ExpectIntervalMs              int   `json:"expect_interval_ms"`
	ExpectNotNotifiedAfterDestroy bool  `json:"expect_not_notified_after_destroy"`
	// ExpectNoStuckNotification: at the end no notification of a settings change is still waiting to
	// be taken by somebody (a thread blocked sending on a channel): its receiver would be a component
	// that has been shut down and was told all the same
	ExpectNoStuckNotification bool `json:"expect_no_stuck_notification"`
}

func init() {
	vrun.Register("cache/sched", scenarioSched)
}

// evRec is one removal made by the janitor code (eviction or cleanup), as seen by the
// wrappers that traceRemovals puts around the janitor's removeEntry / cacheIterator.
type evRec struct {
	Thread  int    // scheduler thread that removed
	Key     string // harness name of the key
	Before  int64  // the cache's own size figure immediately before the removal
	Since   int    // stamp of that thread's previous checkpoint (end of its scan, or its previous removal)
	At      int    // stamp of the removal
	Expired bool   // the entry had expired (the cleanup path removes those whatever the size)
}

type schedRun struct {
	evs  []evRec
	h    *hcache
	recs [][]opRec // per thread; index 0 = main
	end  view
	// effective settings of the components at the end
	limit    int64
	interval int64
}

func scenarioSched(c *vrun.Ctx) {
	var ps []schedParams
	c.Params(&ps)
	for i := range ps {
		p := ps[i]
		if c.Expired() {
			return
		}
		var last *schedRun
		has := func(s string) bool {
			for _, x := range p.Checks {
				if x == s {
					return true
				}
			}
			return false
		}
		body := func() {
			h := newHCache(p.cacheParams)
			r := &schedRun{h: h, recs: make([][]opRec, len(p.Threads)+1)}
			last = r
			if has("evict-stops-at-target") {
				r.traceRemovals()
			}
			initOps := h.plan(p.Init)
			thr := make([][]pop, len(p.Threads))
			for t := range p.Threads {
				thr[t] = h.plan(p.Threads[t])
			}
			finalOps := h.plan(p.Final)
			for _, op := range initOps {
				r.recs[0] = append(r.recs[0], h.do(0, op))
			}
			for t := range thr {
				t := t
				vsched.GoHarness(fmt.Sprintf("T%d", t+1), func() {
					for _, op := range thr[t] {
						r.recs[t+1] = append(r.recs[t+1], h.do(t+1, op))
					}
				})
			}
			vsched.JoinHarness()
			for _, op := range finalOps {
				r.recs[0] = append(r.recs[0], h.do(0, op))
			}
			vsched.Quiesce()
			r.end = h.observe(false)
			if h.mem != nil {
				r.limit, r.interval = h.mem.maxCacheSize.Get(), int64(h.mem.janitor.interval)
			} else {
				r.limit, r.interval = h.file.maxCacheSize.Get(), int64(h.file.janitor.interval)
			}
			h.cancel()
		}
		c.Explore(vrun.ExploreOpts{
			Name: p.Name, K: -1, E: -1, Prop: p.Prop, Atomic: isPoint, Body: body,
			Check: func(x *vsched.Exec) {
				r := last
				c.Outcome(p.Name + ":" + r.digest())
				if has("counters") {
					if prob := r.end.countersProblem(r.h.file != nil, true); prob != "" {
						c.Violation("C12/"+p.Name+"/"+classify(prob), prob+" after "+r.history(), x)
					}
				}
				if p.ExpectLimit != 0 && r.limit != p.ExpectLimit {
					c.Violation(propOr(p.Prop, "C19")+"/"+p.Name+"/cache-limit-not-latest", fmt.Sprintf("the cache ends up with limit %d although the most recent accepted value is %d: %s", r.limit, p.ExpectLimit, r.history()), x)
				}
				if p.ExpectIntervalMs != 0 && r.interval != int64(p.ExpectIntervalMs)*1000000 {
					c.Violation(propOr(p.Prop, "C19")+"/"+p.Name+"/cleanup-interval-not-latest", fmt.Sprintf("the janitor ends up with interval %dns although the most recent accepted value is %dms: %s", r.interval, p.ExpectIntervalMs, r.history()), x)
				}
				if p.ExpectNotNotifiedAfterDestroy && r.limit == 900 {
					c.Violation(propOr(p.Prop, "C19")+"/"+p.Name+"/notified-after-destroy", "a cache that had been destroyed was still notified of a later limit change: "+r.history(), x)
				}
				if p.ExpectNoStuckNotification {
					for _, b := range x.Blocked {
						if strings.Contains(b, "@send:") {
							c.Violation(propOr(p.Prop, "C19")+"/"+p.Name+"/notification-for-a-shut-down-component", "after the cache was shut down a later settings change was still sent to it (and is stuck, nobody takes it): "+b+" | "+r.history(), x)
						}
					}
				}
				for _, k := range p.ExpectPresent {
					// (only an entry that was in fact stored: a memory cache with a single shard lock cannot evict
					// from inside a store and refuses the store instead)
					refused := false
					for _, t := range r.recs {
						for _, o := range t {
							if strings.HasPrefix(o.Op, "S") && strings.HasPrefix(o.Op[strings.Index(o.Op, ":")+1:], k+":") {
								refused = o.Err != ""
							}
						}
					}
					if refused {
						continue
					}
					if _, ok := r.end.Retrievable[k]; !ok {
						c.Violation("C13/"+p.Name+"/fresh-entry-removed", "entry "+k+" was stored fresh and nothing but the cleanup cycle could remove it, yet it is gone at the end: "+r.history(), x)
					}
				}
				if has("evict-stops-at-target") {
					for _, prob := range r.overEvictions(int64(float64(p.Limit) * 0.8)) {
						c.Violation("C13/"+p.Name+"/"+prob.class, prob.msg+" in "+r.history(), x)
					}
				}
				if has("integrity") {
					for _, prob := range r.integrityProblems() {
						c.Violation("C01/"+p.Name+"/"+prob.class, prob.msg+" in "+r.history(), x)
					}
				}
			},
		})
	}
}

// digest summarises the observable outcome of an execution (used to count distinct outcomes).
func (r *schedRun) digest() string {
	var parts []string
	for _, t := range r.recs {
		for _, o := range t {
			parts = append(parts, fmt.Sprintf("%s=%s%s%s", o.Op, o.Err, o.Meta, o.Ident))
		}
	}
	b, _ := json.Marshal(r.end.Retrievable)
	return strings.Join(parts, ",") + "|" + string(b) + fmt.Sprint(r.end.ByteSize, r.end.MetricBytes, r.end.MetricEntries)
}

func (r *schedRun) history() string {
	var all []opRec
	for _, t := range r.recs {
		all = append(all, t...)
	}
	sort.Slice(all, func(i, j int) bool { return all[i].Call < all[j].Call })
	var parts []string
	for _, o := range all {
		s := fmt.Sprintf("T%d.%s[%d,%d]", o.Thread, o.Op, o.Call, o.Ret)
		if o.Err != "" {
			s += "!" + o.Err
		}
		if o.Meta != "" {
			s += "->" + o.Meta
		}
		parts = append(parts, s)
	}
	return strings.Join(parts, " ")
}

// classify strips numbers so that one defect gives one violation class.
func classify(s string) string {
	var b strings.Builder
	lastHash := false
	for _, r := range s {
		if r >= '0' && r <= '9' || r == '-' {
			if !lastHash {
				b.WriteByte('#')
				lastHash = true
			}
			continue
		}
		lastHash = false
		b.WriteRune(r)
	}
	out := b.String()
	if len(out) > 160 {
		out = out[:160]
	}
	return out
}

type problem struct{ class, msg string }

// integrityProblems is the C01(a) oracle on the recorded call/return history:
// every body handed out is, byte for byte, the body of the (resource, version) its
// metadata names; the size matches; and a read that started after an entry had been
// replaced or removed does not return the replaced version.
func (r *schedRun) integrityProblems() []problem {
	var out []problem
	var all []opRec
	for _, t := range r.recs {
		all = append(all, t...)
	}
	type wr struct {
		call, ret int
		ok        bool
	}
	writes := map[string]wr{} // "k/vN/nB" -> the store that produced it
	var removers []opRec      // successful stores and deletes, per key
	keyOf := func(o opRec) string { return strings.Split(o.Op, ":")[1] }
	for _, o := range all {
		if o.Stored != "" {
			writes[o.Stored] = wr{o.Call, o.Ret, o.Err == ""}
			if o.Err == "" {
				removers = append(removers, o)
			}
		}
		if strings.HasPrefix(o.Op, "D:") && o.Err == "" {
			removers = append(removers, o)
		}
		if o.Bad != "" {
			out = append(out, problem{"bad-read/" + classify(o.Bad), fmt.Sprintf("T%d %s: %s", o.Thread, o.Op, o.Bad)})
		}
	}
	for _, o := range all {
		if !strings.HasPrefix(o.Op, "G:") || o.Err != "" {
			continue
		}
		k := keyOf(o)
		cand, why := vnetIdentify([]byte(o.Body), r.h.cands)
		if why != "" {
			out = append(out, problem{"body/" + classify(why), fmt.Sprintf("T%d %s returned a body that is no stored body: %s (metadata says %s)", o.Thread, o.Op, why, o.Meta)})
			continue
		}
		ident := cand.String()
		if ident != o.Meta {
			out = append(out, problem{"mispaired", fmt.Sprintf("T%d %s returned the body of %s with the metadata of %s", o.Thread, o.Op, ident, o.Meta)})
		}
		if cand.R != k {
			out = append(out, problem{"foreign-resource", fmt.Sprintf("T%d %s returned the body of %s", o.Thread, o.Op, ident)})
		}
		if o.Size != int64(len(o.Body)) {
			out = append(out, problem{"size", fmt.Sprintf("T%d %s: Metadata.Size %d but %d bytes read", o.Thread, o.Op, o.Size, len(o.Body))})
		}
		w, ok := writes[ident]
		if !ok {
			continue
		}
		if w.call > o.Ret {
			out = append(out, problem{"future-read", fmt.Sprintf("T%d %s returned %s before it was stored", o.Thread, o.Op, ident)})
		}
		for _, x := range removers {
			if keyOf(x) != k || x.Stored == ident {
				continue
			}
			if x.Call > w.ret && x.Ret < o.Call {
				out = append(out, problem{"replaced-body-served", fmt.Sprintf("T%d %s [%d,%d] returned %s although T%d %s [%d,%d] had replaced/removed it before the read began", o.Thread, o.Op, o.Call, o.Ret, ident, x.Thread, x.Op, x.Call, x.Ret)})
				break
			}
		}
	}
	return out
}

// traceRemovals wraps the janitor's own removeEntry and cacheIterator (function values
// handed to it by the cache) so that every removal is recorded with the size the cache
// reported just before it. The wrappers add no scheduling points.
func (r *schedRun) traceRemovals() {
	h := r.h
	var fns *cacheFunctions[vmeta]
	if h.mem != nil {
		fns = &h.mem.janitor.cacheFns
	} else {
		fns = &h.file.janitor.cacheFns
	}
	var checkpoint [64]int
	iter, remove, size := fns.cacheIterator, fns.removeEntry, fns.getCacheSize
	// read the entry maps directly: one thread runs at a time, and a lock here would be a scheduling point
	getMeta := func(k CacheKey) (*EntryMetadata[vmeta], bool) {
		if h.mem != nil {
			e, ok := h.mem.entries[k]
			if !ok {
				return nil, false
			}
			return e.meta, true
		}
		m, ok := h.file.entriesMetadata[k]
		return m, ok
	}
	fns.cacheIterator = func(yield func(CacheKey, *EntryMetadata[vmeta]) bool) {
		iter(yield)
		if t := vsched.CurrentThread(); t >= 0 && t < len(checkpoint) {
			checkpoint[t] = vsched.Stamp()
		}
	}
	fns.removeEntry = func(k CacheKey) error {
		t := vsched.CurrentThread()
		if t < 0 || t >= len(checkpoint) {
			return remove(k)
		}
		ev := evRec{Thread: t, Key: h.names[k], Before: size(), Since: checkpoint[t], At: vsched.Stamp()}
		if m, ok := getMeta(k); ok && !m.Expires.After(vtime.Peek()) {
			ev.Expired = true
		}
		r.evs = append(r.evs, ev)
		err := remove(k)
		checkpoint[t] = vsched.Stamp()
		return err
	}
}

// overEvictions is the "stops as soon as the target is reached" oracle under
// concurrency. The eviction loop looks at the size before every removal; a removal made
// while the cache already reported a size at or below the target is legitimate only if
// that size was reached after the look, i.e. if somebody else freed bytes between this
// thread's previous checkpoint (the end of its scan or its previous removal: the look
// comes after it) and the removal. Any harness operation of another thread that
// overlaps that window, and any removal by another janitor thread inside it, excuses it.
func (r *schedRun) overEvictions(target int64) []problem {
	var out []problem
	for _, ev := range r.evs {
		if ev.Before > target || ev.Expired {
			continue
		}
		excused := false
		for _, t := range r.recs {
			for _, o := range t {
				if o.Call < ev.At && o.Ret > ev.Since && !(strings.HasPrefix(o.Op, "T") || strings.HasPrefix(o.Op, "Q")) {
					// the operation that itself runs the eviction (a store at the limit) is the one whose
					// window this is; only operations of other threads count
					if o.Sched != ev.Thread {
						excused = true
					}
				}
			}
		}
		for _, o := range r.evs {
			if o.Thread != ev.Thread && o.At > ev.Since && o.At < ev.At {
				excused = true
			}
		}
		if !excused {
			out = append(out, problem{"evicted-at-or-below-target", fmt.Sprintf("entry %s was evicted (stamp %d) although the cache already reported %d bytes <= target %d and nothing else freed bytes since the evicting thread's previous step (stamp %d)", ev.Key, ev.At, ev.Before, target, ev.Since)})
		}
	}
	return out
}

// propOr: the limit/interval oracles are shared by C19 (components follow the latest setting) and
// C13 (a limit or interval changed at run time governs the following cycles).
func propOr(p, def string) string {
	if p == "C13" || p == "C19" {
		return p
	}
	return def
}
