//go:build verif

package cache

import (
	"fmt"
	"os"
	"strconv"
	"strings"

	"reservoir/zzverif/vrun"
	"reservoir/zzverif/vsched"
)

func init() { vrun.Register("cache/settings", scenarioSettings) }

// scenarioSettings (C19, component level): "every live component ends up following the most
// recent value". Differential oracle with no hand-written expectation: a cache that went through
// any history of run-time changes of max_cache_size (L), memory_budget_percent (B) and
// cleanup_interval (I), in any order, must from then on behave exactly like a cache that was
// constructed with the final values: same answers to a probe sequence of stores (accepted /
// memory-exceeded), same entries left, same effective interval (a cycle after one new interval
// removes the expired probe entry).
func scenarioSettings(c *vrun.Ctx) {
	var p struct {
		Depth int `json:"depth"`
	}
	c.Params(&p)
	alphabet := []string{"L:30", "L:5000", "B:0", "B:50", "I:500", "I:3000"}
	probe := []string{"S:a:20", "S:c:20", "Se:d:5", "S:b:20", "G:a", "G:c", "T500", "Q", "G:d", "T2500", "Q", "G:d"}
	n := len(alphabet)
	caseNo := 0
	for _, be := range []string{"memory", "file"} {
		for depth := 1; depth <= p.Depth; depth++ {
			total := 1
			for i := 0; i < depth; i++ {
				total *= n
			}
			for hi := 0; hi < total; hi++ {
				caseNo++
				if !c.Mine(caseNo) {
					continue
				}
				hist := make([]string, depth)
				x := hi
				for i := depth - 1; i >= 0; i-- {
					hist[i] = alphabet[x%n]
					x /= n
				}
				// final values
				final := cacheParams{Backend: be, Shards: 2, Limit: 100000, Interval: 1000, Budget: 75}
				for _, op := range hist {
					v, _ := strconv.Atoi(op[2:])
					switch op[0] {
					case 'L':
						final.Limit = int64(v)
					case 'B':
						final.Budget = v
						if v == 0 {
							final.Budget = -1 // explicit zero (0 means "default" in cacheParams)
						}
					case 'I':
						final.Interval = v
					}
				}
				c.Case()
				run := func(start cacheParams, changes []string) (string, string) {
					var out []string
					var status string
					ex := vsched.Run(vsched.Config{Horizon: 200000, AtomicFilter: isPoint}, func() {
						h := newHCache(start)
						for _, op := range h.plan(changes) {
							h.do(0, op)
							vsched.Quiesce()
						}
						for _, op := range h.plan(probe) {
							if strings.HasPrefix(op.code, "T") && len(op.code) > 1 {
								ms, _ := strconv.Atoi(op.code[1:])
								h.do(0, pop{code: "A:" + strconv.Itoa(ms)})
								continue
							}
							rec := h.do(0, op)
							if op.code != "Q" {
								out = append(out, op.code+"="+rec.Err+rec.Meta)
							}
						}
						v := h.observe(false)
						out = append(out, fmt.Sprint(v.Retrievable, v.ByteSize))
						h.cancel()
						vsched.Quiesce()
						if h.dir != "" {
							os.RemoveAll(h.dir)
						}
					})
					status = ex.Status
					if ex.Status != "complete" {
						status += ": " + ex.Detail + " " + ex.PanicVal
					}
					return strings.Join(out, " "), status
				}
				got, st1 := run(cacheParams{Backend: be, Shards: 2, Limit: 100000, Interval: 1000, Budget: 75}, hist)
				want, st2 := run(final, nil)
				c.Outcome(be + ":" + want)
				desc := be + ": " + strings.Join(hist, " ")
				if st1 != "complete" || st2 != "complete" {
					c.SetCase(desc)
					c.Violation("C14/settings/"+be+"/"+strings.SplitN(st1+st2, ":", 2)[0], "history of setting changes does not run to completion: "+st1+" / "+st2+" | "+desc, nil)
					continue
				}
				if got != want {
					c.SetCase(desc)
					c.Violation("C19/settings/"+be+"/component-does-not-follow-latest/"+strings.Join(opKinds(hist), ","), fmt.Sprintf("after the run-time changes [%s] the cache answers the probe with\n   %s\n a cache constructed with the final values (limit %d, budget %d%%, interval %d ms) answers\n   %s", strings.Join(hist, " "), got, final.Limit, final.Budget, final.Interval, want), nil)
				}
			}
		}
	}
	c.Res.Bounds["depth"] = p.Depth
	c.Res.Bounds["alphabet"] = alphabet
}
