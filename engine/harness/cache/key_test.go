//go:build verif

package cache

import (
	"bufio"
	"fmt"
	"net/http"
	"sort"
	"strings"

	"reservoir/zzverif/vrun"
)

func init() { vrun.Register("cache/keys", scenarioKeys) }

type target struct {
	method, host, path, query string
	key                       string
	mustForm, mayForm         string
}

// removeDotSegments is RFC 3986 section 5.2.4 on the path as sent.
func removeDotSegments(p string) string {
	var out []string
	in := p
	for in != "" {
		switch {
		case strings.HasPrefix(in, "../"):
			in = in[3:]
		case strings.HasPrefix(in, "./"):
			in = in[2:]
		case strings.HasPrefix(in, "/./"):
			in = in[2:]
		case in == "/.":
			in = "/"
		case strings.HasPrefix(in, "/../"):
			in = in[3:]
			if len(out) > 0 {
				out = out[:len(out)-1]
			}
		case in == "/..":
			in = "/"
			if len(out) > 0 {
				out = out[:len(out)-1]
			}
		case in == "." || in == "..":
			in = ""
		default:
			i := strings.Index(in[1:], "/")
			if in[0] != '/' {
				i = strings.Index(in, "/")
				if i < 0 {
					out = append(out, in)
					in = ""
				} else {
					out = append(out, in[:i])
					in = in[i:]
				}
				continue
			}
			if i < 0 {
				out = append(out, in)
				in = ""
			} else {
				out = append(out, in[:i+1])
				in = in[i+1:]
			}
		}
	}
	return strings.Join(out, "")
}

// mayNormalize additionally collapses runs of '/', decodes percent-triplets of unreserved
// characters and upper-cases the hex digits of the others.
func mayNormalize(p string) string {
	var b strings.Builder
	for i := 0; i < len(p); i++ {
		if p[i] == '%' && i+2 < len(p) {
			hx := strings.ToUpper(p[i+1 : i+3])
			var v int
			fmt.Sscanf(hx, "%X", &v)
			ch := byte(v)
			if ch >= 'a' && ch <= 'z' || ch >= 'A' && ch <= 'Z' || ch >= '0' && ch <= '9' || ch == '-' || ch == '.' || ch == '_' || ch == '~' {
				b.WriteByte(ch)
			} else {
				b.WriteString("%" + hx)
			}
			i += 2
			continue
		}
		// characters that may not appear raw in a path are equivalent to their encoding: the
		// proxy's URL handling sends them upstream encoded either way, so they name one resource
		if strings.IndexByte("|\"<>\\^`{} ", p[i]) >= 0 {
			b.WriteString(fmt.Sprintf("%%%02X", p[i]))
			continue
		}
		b.WriteByte(p[i])
	}
	s := b.String()
	for strings.Contains(s, "//") {
		s = strings.ReplaceAll(s, "//", "/")
	}
	return removeDotSegments(s)
}

func scenarioKeys(c *vrun.Ctx) {
	var p struct {
		MaxSegs int `json:"max_segs"`
	}
	c.Params(&p)
	methods := []string{"GET", "HEAD"}
	// "\u212aa" starts with the KELVIN SIGN, which Unicode case mapping folds onto "k"; "\xffa" / "\xfea" are
	// not valid UTF-8 (a case mapping that "repairs" them makes both U+FFFD): three hosts that are nobody's
	// letter-case variant. Host names compare case-insensitively in ASCII.
	hosts := []string{"h", "H", "h:80", "g", "ka", "\u212aa", "\xffa", "\xfea"}
	segs := []string{"a", "b", ".", "..", "", "a|b", "a%7Cb", "a%2Fb", "%61", "A"}
	queries := []string{"", "?c", "?b|c", "?|c", "?c&d", "?d&c", "?c=%7C", "?"}
	var paths []string
	var rec func(prefix string, depth int)
	rec = func(prefix string, depth int) {
		if depth > 0 {
			paths = append(paths, prefix)
			paths = append(paths, prefix+"/")
		}
		if depth == p.MaxSegs {
			return
		}
		for _, s := range segs {
			rec(prefix+"/"+s, depth+1)
		}
	}
	paths = append(paths, "/", "") // "" = absolute-form target without a path ("GET http://h HTTP/1.1")
	rec("", 0)
	// long targets: whatever the key is computed from, it is all of the target (300 equal bytes, then a difference)
	long := "/" + strings.Repeat("x", 300)
	paths = append(paths, long, long+"/", long+"/a", long+"/b", long+"/a/", long+"/a/../b", long+"x")
	var ts []*target
	for _, m := range methods {
		for _, h := range hosts {
			for _, pa := range paths {
				for _, q := range queries {
					raw := m + " http://" + h + pa + q + " HTTP/1.1\r\nHost: " + h + "\r\n\r\n"
					req, err := http.ReadRequest(bufio.NewReader(strings.NewReader(raw)))
					if err != nil {
						continue
					}
					t := &target{method: m, host: h, path: pa, query: q}
					func() {
						defer func() {
							if r := recover(); r != nil {
								c.Violation("C16/keys/panic", fmt.Sprintf("MakeFromRequest panics for %q: %v", raw, r), nil)
							}
						}()
						t.key = MakeFromRequest(req).Hex
					}()
					qq := strings.TrimPrefix(q, "?")
					t.mustForm = m + "\x00" + refLowerASCII(h) + "\x00" + removeDotSegments(pa) + "\x00" + qq
					t.mayForm = m + "\x00" + refLowerASCII(h) + "\x00" + mayNormalize(pa) + "\x00" + qq
					ts = append(ts, t)
					c.Case()
				}
			}
		}
	}
	// must-share: equal must-form => equal key
	// (Paths with empty segments are left out of the must-share direction: the statement allows
	// duplicate slashes to be removed too, and "remove dots" and "collapse slashes" do not commute
	// on paths like "/a//..", so either order is acceptable there.)
	byMust := map[string][]*target{}
	for _, t := range ts {
		if strings.Contains(t.path, "//") {
			continue
		}
		byMust[t.mustForm] = append(byMust[t.mustForm], t)
	}
	for _, g := range byMust {
		for _, t := range g[1:] {
			if t.key != g[0].key {
				c.Violation("C02/keys/must-share-split/"+pairClass(g[0], t), fmt.Sprintf("%s and %s name the same resource (host case / dot segments) but have different keys", show(g[0]), show(t)), nil)
			}
		}
	}
	// must-not-share: equal key => equal may-form
	byKey := map[string][]*target{}
	for _, t := range ts {
		byKey[t.key] = append(byKey[t.key], t)
	}
	pairs := 0
	for _, g := range byKey {
		sort.Slice(g, func(i, j int) bool { return show(g[i]) < show(g[j]) })
		for i := 0; i < len(g); i++ {
			for j := i + 1; j < len(g); j++ {
				pairs++
				if g[i].mayForm != g[j].mayForm {
					c.Violation("C02/keys/distinct-resources-share-key/"+pairClass(g[i], g[j]), fmt.Sprintf("%s and %s are different resources but share one cache key", show(g[i]), show(g[j])), nil)
				}
			}
		}
	}
	c.Res.Cases += pairs
	c.Outcome(fmt.Sprintf("targets=%d keys=%d", len(ts), len(byKey)))
	c.Outcome(fmt.Sprintf("must-groups=%d", len(byMust)))
	c.Res.Bounds["targets"] = len(ts)
	c.Res.Bounds["distinct_keys"] = len(byKey)
	c.Res.Bounds["colliding_pairs_compared"] = pairs
	c.Sample(map[string]any{"target": "GET http://h/a/./b?c", "must_form": "GET h /a/b c"})
}

func show(t *target) string { return t.method + " http://" + t.host + t.path + t.query }

// pairClass names what distinguishes the two targets.
func pairClass(a, b *target) string {
	var cls []string
	if a.method != b.method {
		cls = append(cls, "method")
	}
	if refLowerASCII(a.host) != refLowerASCII(b.host) {
		cls = append(cls, "host")
	}
	pa, pb := a.path, b.path
	if pa != pb {
		switch {
		case strings.TrimSuffix(pa, "/") == strings.TrimSuffix(pb, "/"):
			cls = append(cls, "trailing-slash")
		case strings.Contains(pa+pb, "%2F") && strings.ReplaceAll(pa, "%2F", "/") == strings.ReplaceAll(pb, "%2F", "/"):
			cls = append(cls, "encoded-slash")
		case strings.Contains(pa+pb, "|") || strings.Contains(pa+pb, "%7C"):
			cls = append(cls, "pipe-in-path")
		case strings.ToLower(pa) == strings.ToLower(pb):
			cls = append(cls, "path-case")
		default:
			cls = append(cls, "path")
		}
	}
	if a.query != b.query {
		if strings.Contains(a.query+b.query, "|") {
			cls = append(cls, "pipe-in-query")
		} else {
			cls = append(cls, "query")
		}
	}
	return strings.Join(cls, "+")
}

func refLowerASCII(s string) string {
	b := []byte(s)
	for i, c := range b {
		if c >= 'A' && c <= 'Z' {
			b[i] = c + 'a' - 'A'
		}
	}
	return string(b)
}
