//go:build verif

package cache

import (
	"context"
	"errors"
	"fmt"
	"io"
	"os"
	"path/filepath"
	"reflect"
	"sort"
	"strconv"
	"strings"
	"testing"
	"time"

	"reservoir/config"
	"reservoir/metrics"
	"reservoir/utils"
	"reservoir/utils/bytesize"
	"reservoir/utils/duration"
	"reservoir/zzverif/vnet"
	"reservoir/zzverif/vos"
	"reservoir/zzverif/vrun"
	"reservoir/zzverif/vsched"
	"reservoir/zzverif/vtime"
)

func TestVF(t *testing.T) { vrun.Main(t) }

// vmeta is the MetadataT of the harness caches: it records which body was stored.
type vmeta struct {
	R string
	V int
	N int
}

type hcache struct {
	c        Cache[vmeta]
	mem      *MemoryCache[vmeta]
	file     *FileCache[vmeta]
	cfg      *config.Config
	cancel   context.CancelFunc
	dir      string
	keys     map[string]CacheKey
	names    map[CacheKey]string
	interval time.Duration
	backend  string
	shards   int
	cands    []vnet.Candidate
	version  map[string]int
}

type cacheParams struct {
	Backend  string `json:"backend"`
	Shards   int    `json:"shards"`
	Limit    int64  `json:"limit"`
	Interval int    `json:"interval_ms"`
	Budget   int    `json:"budget_percent"` // memory budget at construction (0 = 75, -1 = an explicit 0)
}

var scratchRoot = func() string {
	d := os.Getenv("VF_SCRATCH")
	if d == "" {
		d = os.TempDir()
	}
	return d
}()

// keysFor returns keys a, b in one shard and c, d in another (when shards > 1).
func keysFor(shards int) map[string]CacheKey {
	idx := func(k CacheKey) uint32 { return utils.Hex8ToIndex(k.Hex) % uint32(shards) }
	out := map[string]CacheKey{}
	var first CacheKey
	var firstIdx uint32
	same := []string{"a", "b", "e"}
	other := []string{"c", "d", "f"}
	for i := 0; len(same) > 0 || (len(other) > 0 && shards > 1); i++ {
		k := FromString("k" + strconv.Itoa(i))
		if first.Hex == "" {
			first, firstIdx = k, idx(k)
		}
		if idx(k) == firstIdx && len(same) > 0 {
			out[same[0]] = k
			same = same[1:]
		} else if idx(k) != firstIdx && len(other) > 0 && shards > 1 {
			out[other[0]] = k
			other = other[1:]
		}
		if i > 100000 {
			panic("keysFor: no colliding keys found")
		}
	}
	if shards == 1 {
		out["c"] = FromString("kc")
		out["d"] = FromString("kd")
		out["f"] = FromString("kf")
	}
	return out
}

// demoted holds the atomics of the current execution that are not scheduling points.
var demoted map[uintptr]bool

func isPoint(p uintptr) bool { return !demoted[p] }

func newHCache(p cacheParams) *hcache {
	metrics.Global = metrics.NewMetrics()
	refreshDemoted()
	vtime.Reset()
	vtime.SetAutoTick(time.Microsecond)
	if p.Shards <= 0 {
		p.Shards = 32
	}
	if p.Limit <= 0 {
		p.Limit = 1 << 30
	}
	if p.Interval <= 0 {
		p.Interval = 60000
	}
	h := &hcache{backend: p.Backend, shards: p.Shards, interval: time.Duration(p.Interval) * time.Millisecond, version: map[string]int{}}
	h.cfg = config.NewDefault()
	h.cfg.Cache.MaxCacheSize.Overwrite(bytesize.ByteSize(p.Limit))
	h.cfg.Cache.CleanupInterval.Overwrite(duration.Duration(h.interval))
	vsched.Quiesce() // let the notifier threads of the two overwrites (no listeners yet) finish
	ctx, cancel := context.WithCancel(context.Background())
	h.cancel = cancel
	switch p.Backend {
	case "file":
		h.dir = filepath.Join(scratchRoot, "fc")
		h.file = NewFileCache[vmeta](h.cfg, h.dir, p.Limit, h.interval, p.Shards, ctx)
		h.c = h.file
	default:
		budget := p.Budget
		if budget == 0 {
			budget = 75
		} else if budget < 0 {
			budget = 0
		}
		h.mem = NewMemoryCache[vmeta](h.cfg, budget, p.Limit, h.interval, p.Shards, ctx)
		h.c = h.mem
	}
	// let the janitor goroutine reach its select (ticker armed) before anything else happens:
	// otherwise a clock advance in the scenario's prelude precedes the ticker and starts no cycle
	vsched.Quiesce()
	h.keys = keysFor(p.Shards)
	h.names = map[CacheKey]string{}
	for n, k := range h.keys {
		h.names[k] = n
	}
	return h
}

// atomicFilter keeps as scheduling points only the atomics that the code under test
// reads back (sizes, limits, config values); write-only metric counters are demoted.
func refreshDemoted() {
	demoted = map[uintptr]bool{}
	keep := map[string]bool{"BytesCached": true, "CacheEntries": true}
	var walk func(v reflect.Value)
	walk = func(v reflect.Value) {
		if v.Kind() != reflect.Struct {
			return
		}
		for i := 0; i < v.NumField(); i++ {
			f := v.Field(i)
			name := v.Type().Field(i).Name
			tn := f.Type().String()
			if strings.HasPrefix(tn, "atomics.") {
				if !keep[name] && f.NumField() > 0 && f.Field(0).Kind() == reflect.Pointer {
					demoted[f.Field(0).Pointer()] = true
				}
				continue
			}
			walk(f)
		}
	}
	walk(reflect.ValueOf(metrics.Global).Elem())
}

type opRec struct {
	Thread int    `json:"t"`
	Sched  int    `json:"-"` // scheduler thread id
	Op     string `json:"op"`
	Call   int    `json:"call"`
	Ret    int    `json:"ret"`
	Err    string `json:"err,omitempty"`
	Body   string `json:"body,omitempty"`
	Ident  string `json:"ident,omitempty"` // what the body is
	Meta   string `json:"meta,omitempty"`  // Metadata.Object at hand-out
	Size   int64  `json:"size,omitempty"`
	Stale  bool   `json:"stale,omitempty"`
	Stored string `json:"stored,omitempty"`
	Bad    string `json:"bad,omitempty"`
}

type failingReader struct {
	data  []byte
	after int
	pos   int
}

var errSource = errors.New("source reader failed")

func (r *failingReader) Read(p []byte) (int, error) {
	if r.pos >= r.after {
		return 0, errSource
	}
	n := copy(p, r.data[r.pos:r.after])
	r.pos += n
	return n, nil
}

// pop is a planned operation: versions of stores are assigned before any thread
// runs, so that threads share no mutable harness state.
type pop struct {
	code    string
	version int
}

// plan resolves operation codes, assigning a fresh version to every store.
func (h *hcache) plan(ops []string) []pop {
	out := make([]pop, len(ops))
	for i, op := range ops {
		out[i] = pop{code: op}
		f := strings.Split(op, ":")
		if strings.HasPrefix(f[0], "S") {
			h.version[f[1]]++
			out[i].version = h.version[f[1]]
			n := 0
			if len(f) > 2 {
				n, _ = strconv.Atoi(f[2])
			}
			h.cands = append(h.cands, vnet.Candidate{R: f[1], V: out[i].version, N: n})
		}
	}
	return out
}

// do executes one operation code and returns its record. Codes:
//
//	S:k:n      store key k, n bytes, next version, expires in 1 h
//	Se:k:n     the same, already expired (expires 1 s ago)
//	Sf:k:n:b   store with a source reader that fails after b bytes
//	S0:k       store an empty body
//	G:k        get, read everything in two chunks with a yield in between, close
//	D:k        delete
//	U:k        UpdateMetadata: expires = now + 1 h
//	M:k        GetMetadata
//	L:n        set max_cache_size to n (config change event)
//	I:ms       set cleanup_interval
//	B:p        set memory_budget_percent
//	T          advance the clock by one cleanup interval
//	A:ms       advance the clock by ms
//	C          cancel the cache's context
//	X          Destroy
//	Q          wait until every daemon is parked
func (h *hcache) do(thread int, pop pop) opRec {
	op := pop.code
	rec := opRec{Thread: thread, Sched: vsched.CurrentThread(), Op: op, Call: vsched.Stamp()}
	f := strings.Split(op, ":")
	key := func() CacheKey { return h.keys[f[1]] }
	atoi := func(s string) int { n, _ := strconv.Atoi(s); return n }
	store := func(expires time.Duration, src func(body []byte) io.Reader, n int) {
		v := pop.version
		body := vnet.Body(f[1], v, n)
		rec.Stored = ident(f[1], v, n)
		e, err := h.c.Cache(key(), src(body), vtime.Now().Add(expires), vmeta{R: f[1], V: v, N: n})
		if err != nil {
			rec.Err = errClass(err)
			return
		}
		got, rerr := io.ReadAll(e.Data)
		e.Data.Close()
		if rerr != nil {
			rec.Bad = "reading the handle returned by Cache: " + rerr.Error()
		} else if string(got) != string(body) {
			rec.Bad = "handle returned by Cache reads " + strconv.Quote(string(got)) + ", stored " + strconv.Quote(string(body))
		}
		rec.Size = e.Metadata.Size
		rec.Meta = ident(e.Metadata.Object.R, e.Metadata.Object.V, e.Metadata.Object.N)
		// the caller goes on using the entry it was handed (the proxy builds Age / ttl from it) while
		// other requests work on the stored one: what it was handed must be its own
		vsched.Yield("using the entry returned by Cache")
		if !usesEntryAsCaller(e) {
			rec.Bad = "entry returned by Cache has no expiry / access time"
		}
	}
	plain := func(b []byte) io.Reader { return strings.NewReader(string(b)) }
	switch f[0] {
	case "S":
		store(time.Hour, plain, atoi(f[2]))
	case "Se":
		store(-time.Second, plain, atoi(f[2]))
	case "Sf":
		b := atoi(f[3])
		store(time.Hour, func(body []byte) io.Reader { return &failingReader{data: body, after: b} }, atoi(f[2]))
	case "S0":
		store(time.Hour, plain, 0)
	case "G":
		e, err := h.c.Get(key())
		if err != nil {
			rec.Err = errClass(err)
			break
		}
		rec.Stale = e.Stale
		rec.Size = e.Metadata.Size
		rec.Meta = ident(e.Metadata.Object.R, e.Metadata.Object.V, e.Metadata.Object.N)
		half := int(e.Metadata.Size / 2)
		buf := make([]byte, half)
		n, rerr := io.ReadFull(e.Data, buf)
		buf = buf[:n]
		if rerr != nil && rerr != io.EOF && rerr != io.ErrUnexpectedEOF {
			rec.Bad = "read: " + rerr.Error()
		}
		vsched.Yield("reader between chunks")
		rest, rerr := io.ReadAll(e.Data)
		if rerr != nil {
			rec.Bad = "read: " + rerr.Error()
		}
		rec.Body = string(buf) + string(rest)
		if len(rec.Body) >= 3 {
			at := make([]byte, 2)
			if n, _ := e.Data.ReadAt(at, 1); n == 2 && string(at) != rec.Body[1:3] {
				rec.Bad = "ReadAt(1,2)=" + strconv.Quote(string(at)) + " but sequential read gave " + strconv.Quote(rec.Body[1:3])
			}
		}
		e.Data.Close()
	case "D":
		if err := h.c.Delete(key()); err != nil {
			rec.Err = errClass(err)
		}
	case "U":
		err := h.c.UpdateMetadata(key(), func(m *EntryMetadata[vmeta]) { m.Expires = vtime.Now().Add(time.Hour) })
		if err != nil {
			rec.Err = errClass(err)
		}
	case "M":
		m, stale, err := h.c.GetMetadata(key())
		if err != nil {
			rec.Err = errClass(err)
			break
		}
		rec.Stale = stale
		rec.Size = m.Size
		rec.Meta = ident(m.Object.R, m.Object.V, m.Object.N)
	case "L":
		h.cfg.Cache.MaxCacheSize.Overwrite(bytesize.ByteSize(atoi(f[1])))
	case "I":
		h.cfg.Cache.CleanupInterval.Overwrite(duration.Duration(time.Duration(atoi(f[1])) * time.Millisecond))
	case "B":
		h.cfg.Cache.Memory.MemoryBudgetPercent.Overwrite(atoi(f[1]))
	case "T":
		vtime.Advance(h.interval)
	case "A":
		vtime.Advance(time.Duration(atoi(f[1])) * time.Millisecond)
	case "C":
		h.cancel() // the cache's context is cancelled (shutdown begins): the janitor goroutine exits
	case "X":
		h.c.Destroy()
	case "Q":
		vsched.Quiesce()
	default:
		panic("unknown op " + op)
	}
	rec.Ret = vsched.Stamp()
	return rec
}

// ident names a (resource, version, size) without fmt: fmt's sync.Pool would add
// happens-before edges between harness threads and blunt the race oracle.
func ident(r string, v, n int) string {
	return r + "/v" + strconv.Itoa(v) + "/" + strconv.Itoa(n) + "B"
}

func errClass(err error) string {
	switch {
	case errors.Is(err, ErrCacheEntryNotFound):
		return "notfound"
	case errors.Is(err, ErrCacheMemoryExceeded):
		return "memory-exceeded"
	case errors.Is(err, errSource):
		return "source-failed"
	case errors.Is(err, ErrCacheFileWrite):
		return "file-write"
	case errors.Is(err, ErrCacheFileCreate):
		return "file-create"
	case errors.Is(err, ErrCacheFileEmpty):
		return "file-empty"
	case errors.Is(err, ErrCacheFileRead):
		return "file-read"
	case errors.Is(err, ErrCacheFileRemove):
		return "file-remove"
	case errors.Is(err, ErrCacheFileStat):
		return "file-stat"
	}
	return "other:" + err.Error()
}

// view is the quiescent-state observation used by the C12 oracle.
type view struct {
	ByteSize      int64            `json:"byte_size"`
	MapLen        int              `json:"map_len"`
	MetricBytes   int64            `json:"metric_bytes"`
	MetricEntries int64            `json:"metric_entries"`
	Retrievable   map[string]int64 `json:"retrievable"` // key name -> bytes actually readable
	MetaSize      map[string]int64 `json:"meta_size"`
	RetrBytes     int64            `json:"retr_bytes"`
	RetrCount     int              `json:"retr_count"`
	Files         map[string]int64 `json:"files,omitempty"`
	FileBytes     int64            `json:"file_bytes"`
	Problems      []string         `json:"problems,omitempty"`
}

// observe reads the cache's own accounting and what is actually retrievable.
// It goes through the internal maps for the accounting and through Get for the rest;
// Get touches LastAccess, so observe is only used where that does not matter
// (end of an execution) or the caller compensates.
func (h *hcache) observe(useGet bool) view {
	v := view{Retrievable: map[string]int64{}, MetaSize: map[string]int64{}}
	if h.mem != nil {
		v.ByteSize = h.mem.byteSize.Get()
		v.MapLen = len(h.mem.entries)
	} else {
		v.ByteSize = h.file.byteSize.Get()
		v.MapLen = len(h.file.entriesMetadata)
	}
	v.MetricBytes = metrics.Global.Cache.BytesCached.Get()
	v.MetricEntries = metrics.Global.Cache.CacheEntries.Get()
	names := make([]string, 0, len(h.keys))
	for n := range h.keys {
		names = append(names, n)
	}
	sort.Strings(names)
	for _, n := range names {
		k := h.keys[n]
		if useGet {
			e, err := h.c.Get(k)
			if err != nil {
				if !errors.Is(err, ErrCacheEntryNotFound) {
					v.Problems = append(v.Problems, fmt.Sprintf("Get(%s): %v", n, err))
				}
				continue
			}
			b, rerr := io.ReadAll(e.Data)
			e.Data.Close()
			if rerr != nil {
				v.Problems = append(v.Problems, fmt.Sprintf("read(%s): %v", n, rerr))
			}
			v.Retrievable[n] = int64(len(b))
			v.MetaSize[n] = e.Metadata.Size
			v.RetrBytes += int64(len(b))
			v.RetrCount++
			continue
		}
		// internal view without touching LastAccess
		if h.mem != nil {
			if ent, ok := h.mem.entries[k]; ok {
				v.Retrievable[n] = int64(len(ent.data))
				v.MetaSize[n] = ent.meta.Size
				v.RetrBytes += int64(len(ent.data))
				v.RetrCount++
			}
		} else if m, ok := h.file.entriesMetadata[k]; ok {
			st, err := os.Stat(filepath.Join(h.dir, k.Hex))
			if err != nil {
				v.Problems = append(v.Problems, fmt.Sprintf("entry %s is in the map but has no file", n))
				_ = err
				v.RetrCount++
				continue
			}
			v.Retrievable[n] = st.Size()
			v.MetaSize[n] = m.Size
			v.RetrBytes += st.Size()
			v.RetrCount++
		}
	}
	if h.file != nil {
		v.Files = map[string]int64{}
		ents, _ := os.ReadDir(h.dir)
		for _, e := range ents {
			info, err := e.Info()
			if err != nil {
				continue
			}
			name := e.Name()
			if n, ok := h.names[CacheKey{Hex: name}]; ok {
				name = n
			}
			v.Files[name] = info.Size()
			v.FileBytes += info.Size()
		}
	}
	return v
}

// countersProblem applies the C12 equalities to a quiescent view.
func (v view) countersProblem(file bool, metricsFresh bool) string {
	var p []string
	if v.ByteSize != v.RetrBytes {
		p = append(p, fmt.Sprintf("reported size %d != %d bytes retrievable", v.ByteSize, v.RetrBytes))
	}
	if v.MapLen != v.RetrCount {
		p = append(p, fmt.Sprintf("map holds %d entries != %d retrievable", v.MapLen, v.RetrCount))
	}
	if metricsFresh {
		if v.MetricBytes != v.RetrBytes {
			p = append(p, fmt.Sprintf("metric bytes_cached %d != %d bytes retrievable", v.MetricBytes, v.RetrBytes))
		}
		if v.MetricEntries != int64(v.RetrCount) {
			p = append(p, fmt.Sprintf("metric cache_entries %d != %d entries retrievable", v.MetricEntries, v.RetrCount))
		}
	}
	if v.ByteSize < 0 || v.MetricBytes < 0 || v.MetricEntries < 0 {
		p = append(p, "a counter is negative")
	}
	for n, sz := range v.Retrievable {
		if v.MetaSize[n] != sz {
			p = append(p, fmt.Sprintf("entry %s: Metadata.Size %d != %d bytes readable", n, v.MetaSize[n], sz))
		}
	}
	if file {
		if v.FileBytes != v.RetrBytes {
			p = append(p, fmt.Sprintf("directory holds %d bytes != %d bytes retrievable", v.FileBytes, v.RetrBytes))
		}
		if len(v.Files) != v.RetrCount {
			p = append(p, fmt.Sprintf("directory holds %d files != %d entries retrievable", len(v.Files), v.RetrCount))
		}
	}
	p = append(p, v.Problems...)
	sort.Strings(p)
	return strings.Join(p, "; ")
}

var _ = vos.NoPlan

// usesEntryAsCaller reads the metadata of an entry the way the code that called Cache / Get does
// afterwards (the proxy computes Age and ttl from it). The name marks it for the race oracle: this
// access counts as the API caller's, not as the harness inspecting internals.
//
//go:noinline
func usesEntryAsCaller(e *Entry[vmeta]) bool {
	return !e.Metadata.Expires.IsZero() && !e.Metadata.LastAccess.IsZero()
}
