//go:build verif

package cache

import (
	"context"
	"fmt"
	"os"
	"path/filepath"
	"strings"

	"reservoir/metrics"
	"reservoir/zzverif/vrun"
	"reservoir/zzverif/vsched"
	"reservoir/zzverif/vtime"
)

// seqParams: exhaustive enumeration of operation histories (engine E3) on a fresh
// cache per history, with the C12 accounting equalities checked after every step.
type seqParams struct {
	Name string `json:"name"`
	cacheParams
	Alphabet []string `json:"alphabet"`
	Depth    int      `json:"depth"`
	Reopen   bool     `json:"reopen"` // file backend: abandon the cache after the history and reopen the directory
}

func init() {
	vrun.Register("cache/seq", scenarioSeq)
}

// keyState describes the addressed key (and the fill level) before an operation; a
// violation is attributed to the first (state, operation) transition that breaks an
// equality, which is what a known-findings entry matches.
func (h *hcache) keyState(op string) string {
	f := strings.Split(op, ":")
	st := ""
	if len(f) > 1 {
		if k, ok := h.keys[f[1]]; ok {
			st = "absent"
			if h.mem != nil {
				if e, ok := h.mem.entries[k]; ok {
					st = "present"
					if e.meta.Expires.Before(vtime.Peek()) {
						st = "expired"
					}
				}
			} else if m, ok := h.file.entriesMetadata[k]; ok {
				st = "present"
				if m.Expires.Before(vtime.Peek()) {
					st = "expired"
				}
			}
		}
	}
	var size, limit int64
	if h.mem != nil {
		size, limit = h.mem.byteSize.Get(), h.mem.maxCacheSize.Get()
	} else {
		size, limit = h.file.byteSize.Get(), h.file.maxCacheSize.Get()
	}
	if size >= limit {
		st += ",full"
	}
	return f[0] + "(" + st + ")"
}

func scenarioSeq(c *vrun.Ctx) {
	var ps []seqParams
	c.Params(&ps)
	for _, p := range ps {
		if !c.Want(p.Name) {
			continue
		}
		c.SetCase(p.Name)
		n := len(p.Alphabet)
		idx := make([]int, p.Depth)
		total := 1
		for i := 0; i < p.Depth; i++ {
			total *= n
		}
		sampleEvery := total/4 + 1
		for hi := 0; hi < total; hi++ {
			if hi%1024 == 0 && c.Expired() {
				return
			}
			if !c.Mine(hi) {
				continue
			}
			x := hi
			for i := p.Depth - 1; i >= 0; i-- {
				idx[i] = x % n
				x /= n
			}
			hist := make([]string, p.Depth)
			for i, j := range idx {
				hist[i] = p.Alphabet[j]
			}
			c.Case()
			var firstBad, badKey string
			var steps []string
			var endDigest string
			ex := vsched.Run(vsched.Config{Horizon: 100000, AtomicFilter: isPoint}, func() {
				h := newHCache(p.cacheParams)
				ops := h.plan(hist)
				for i, op := range ops {
					state := h.keyState(op.code)
					rec := h.do(0, op)
					vsched.Quiesce()
					steps = append(steps, fmt.Sprintf("%s%s", op.code, errSuffix(rec.Err)))
					if rec.Bad != "" && firstBad == "" {
						firstBad = rec.Bad
						badKey = "C01/seq/" + p.Backend + "/" + state + "/" + classify(rec.Bad)
					}
					v := h.observe(false)
					if prob := v.countersProblem(h.file != nil, true); prob != "" && firstBad == "" {
						firstBad = fmt.Sprintf("after step %d (%s on %s): %s", i+1, op.code, state, prob)
						badKey = "C12/seq/" + p.Backend + "/" + state + "/" + classify(prob)
					}
					if firstBad != "" {
						break
					}
					endDigest = fmt.Sprint(v.Retrievable, v.ByteSize)
				}
				if firstBad == "" && p.Reopen && h.file != nil {
					// a restart over a dirty directory: abandon the instance, reopen the directory
					h.cancel()
					vsched.Quiesce()
					// "abandonment at any point": a store that was in flight at that moment leaves its temporary
					// file behind (the body is streamed into <key>.tmp and renamed when complete)
					os.WriteFile(filepath.Join(h.dir, h.keys["a"].Hex+".tmp"), []byte("the part of a body that had arrived"), 0o644)
					metrics.Global = metrics.NewMetrics()
					refreshDemoted()
					ctx, cancel := context.WithCancel(context.Background())
					nf := NewFileCache[vmeta](h.cfg, h.dir, p.Limit, h.interval, p.Shards, ctx)
					h2 := &hcache{c: nf, file: nf, cfg: h.cfg, cancel: cancel, dir: h.dir, keys: h.keys, names: h.names, backend: "file"}
					v := h2.observe(true)
					if v.ByteSize != 0 || v.MapLen != 0 || v.MetricBytes != 0 || v.MetricEntries != 0 || v.RetrCount != 0 || len(v.Files) != 0 {
						firstBad = fmt.Sprintf("after reopening the directory: %+v", v)
						badKey = "C12/reopen/" + classify(fmt.Sprint(v.ByteSize != 0, v.MapLen != 0, v.RetrCount != 0, len(v.Files) != 0))
					}
					cancel()
				} else {
					h.cancel()
				}
				vsched.Quiesce()
				if h.dir != "" {
					os.RemoveAll(h.dir)
				}
			})
			c.Res.Transitions += ex.Steps
			if ex.Status != "complete" {
				c.Violation("C14/seq/"+p.Backend+"/"+ex.Status+"/"+strings.Join(opKinds(hist), ","), ex.Status+": "+ex.Detail+" "+ex.PanicVal+" in history "+strings.Join(hist, " "), nil)
				continue
			}
			c.Outcome(p.Backend + ":" + endDigest)
			if firstBad != "" {
				c.SetCase(p.Name + ": " + strings.Join(hist, " "))
				c.Violation(badKey, firstBad+"; history: "+strings.Join(steps, " "), nil)
			}
			if hi%sampleEvery == 0 {
				c.Sample(map[string]any{"backend": p.Backend, "history": steps, "end": endDigest})
			}
		}
		c.Res.Bounds["depth"] = p.Depth
		c.Res.Bounds["alphabet"] = p.Alphabet
	}
}

func errSuffix(e string) string {
	if e == "" {
		return ""
	}
	return "!" + e
}

func opKinds(hist []string) []string {
	out := make([]string, len(hist))
	for i, h := range hist {
		out[i] = strings.SplitN(h, ":", 2)[0]
	}
	return out
}
