//go:build verif

package cache

import (
	"fmt"
	"os"
	"sort"
	"strings"
	"time"

	"reservoir/utils/bytesize"
	"reservoir/zzverif/vrun"
	"reservoir/zzverif/vsched"
	"reservoir/zzverif/vtime"
)

// lruParams: exhaustive enumeration of populations (sizes, access orders, expiry),
// limits, shard counts and triggers, judged by the relational reference B4/C13.
type lruParams struct {
	Name     string   `json:"name"`
	Backend  string   `json:"backend"`
	Shards   []int    `json:"shards"`
	Limits   []int64  `json:"limits"`
	Sizes    []int64  `json:"sizes"`
	MaxN     int      `json:"max_n"`
	Triggers []string `json:"triggers"` // "store", "tick", "store-colliding"
	Mode     string   `json:"mode"`     // "evict" or "cleanup"
}

func init() { vrun.Register("cache/lru", scenarioLRU) }

type lruEntry struct {
	key     string
	size    int64
	expired bool
	touch   int // position in the access order (higher = more recent)
	sameMs  bool
}

func permutations(n int) [][]int {
	var out [][]int
	p := make([]int, n)
	for i := range p {
		p[i] = i
	}
	var rec func(k int)
	rec = func(k int) {
		if k == n {
			out = append(out, append([]int(nil), p...))
			return
		}
		for i := k; i < n; i++ {
			p[k], p[i] = p[i], p[k]
			rec(k + 1)
			p[k], p[i] = p[i], p[k]
		}
	}
	rec(0)
	return out
}

func scenarioLRU(c *vrun.Ctx) {
	var ps []lruParams
	c.Params(&ps)
	caseNo := 0
	for _, p := range ps {
		if !c.Want(p.Name) {
			continue
		}
		keys := []string{"a", "c", "b", "d"} // alternate shards
		for _, shards := range p.Shards {
			for _, limit := range p.Limits {
				for n := 2; n <= p.MaxN; n++ {
					nsz := len(p.Sizes)
					combos := 1
					for i := 0; i < n; i++ {
						combos *= nsz
					}
					for combo := 0; combo < combos; combo++ {
						sizes := make([]int64, n)
						x := combo
						for i := 0; i < n; i++ {
							sizes[i] = p.Sizes[x%nsz]
							x /= nsz
						}
						var variants [][]int // access orders (evict) or expiry bitmasks (cleanup)
						if p.Mode == "cleanup" {
							for m := 0; m < 1<<n; m++ {
								variants = append(variants, []int{m})
							}
						} else {
							variants = permutations(n)
						}
						for _, variant := range variants {
							for _, trig := range p.Triggers {
								caseNo++
								if caseNo%256 == 0 && c.Expired() {
									return
								}
								if !c.Mine(caseNo) {
									continue
								}
								c.Case()
								ents := make([]lruEntry, n)
								for i := 0; i < n; i++ {
									ents[i] = lruEntry{key: keys[i], size: sizes[i]}
									if p.Mode == "cleanup" {
										ents[i].expired = variant[0]&(1<<i) != 0
										ents[i].touch = i
									} else {
										ents[i].touch = variant[i]
									}
								}
								runLRUCase(c, p, shards, limit, ents, trig)
							}
						}
					}
				}
			}
		}
		c.Res.Bounds["lru_"+p.Name] = map[string]any{"shards": p.Shards, "limits": p.Limits, "sizes": p.Sizes, "max_entries": p.MaxN, "triggers": p.Triggers}
	}
}

func runLRUCase(c *vrun.Ctx, p lruParams, shards int, limit int64, ents []lruEntry, trig string) {
	desc := fmt.Sprintf("%s shards=%d limit=%d trigger=%s entries=", p.Backend, shards, limit, trig)
	for _, e := range ents {
		desc += fmt.Sprintf("[%s %dB touch#%d exp=%v]", e.key, e.size, e.touch, e.expired)
	}
	var before, after map[string]int64
	var sizeBefore, sizeAfter int64
	var last map[string]time.Time
	var trigErr string
	var cycleTime time.Time
	ex := vsched.Run(vsched.Config{Horizon: 200000, AtomicFilter: isPoint}, func() {
		h := newHCache(cacheParams{Backend: p.Backend, Shards: shards, Limit: 1 << 40, Interval: 3600_000})
		vtime.SetAutoTick(time.Microsecond)
		for i, e := range ents {
			exp := time.Hour * 24
			if e.expired {
				exp = time.Duration(i+1) * time.Millisecond // expires long before the trigger
			}
			if _, err := h.c.Cache(h.keys[e.key], strings.NewReader(string(make([]byte, e.size))), vtime.Now().Add(exp), vmeta{R: e.key, V: 1, N: int(e.size)}); err != nil {
				panic("population store failed: " + err.Error())
			}
			vtime.Advance(10 * time.Millisecond)
		}
		// touches in access order, 10 ms apart
		order := make([]int, len(ents))
		for i, e := range ents {
			order[e.touch] = i
		}
		// The reference's notion of "last used" is the harness's own record of when it touched each
		// entry, not the LastAccess the implementation wrote down (which is what is being judged).
		// Both read paths count as use: entries at even positions are touched with GetMetadata, the
		// others with Get.
		touched := map[string]time.Time{}
		for _, i := range order {
			touched[ents[i].key] = vtime.Peek()
			if i%2 == 0 {
				if _, _, err := h.c.GetMetadata(h.keys[ents[i].key]); err != nil {
					panic("touch failed: " + err.Error())
				}
			} else {
				e, err := h.c.Get(h.keys[ents[i].key])
				if err != nil {
					panic("touch failed: " + err.Error())
				}
				e.Data.Close()
			}
			vtime.Advance(10 * time.Millisecond)
		}
		last = map[string]time.Time{}
		read := func() (map[string]int64, int64) {
			m := map[string]int64{}
			var total int64
			for n, k := range h.keys {
				if h.mem != nil {
					if e, ok := h.mem.entries[k]; ok {
						m[n] = e.meta.Size
						total += e.meta.Size
						last[n] = e.meta.LastAccess
					}
				} else if e, ok := h.file.entriesMetadata[k]; ok {
					m[n] = e.Size
					total += e.Size
					last[n] = e.LastAccess
				}
			}
			return m, total
		}
		before, sizeBefore = read()
		lastBefore := last
		// the limit changes at run time and governs what follows
		h.cfg.Cache.MaxCacheSize.Overwrite(bytesize.ByteSize(limit))
		vsched.Quiesce()
		vtime.Advance(50 * time.Millisecond)
		cycleTime = vtime.Peek()
		switch trig {
		case "store", "store-colliding":
			k := "f"
			if trig == "store-colliding" {
				k = "e"
			}
			if _, err := h.c.Cache(h.keys[k], strings.NewReader("0123456789"), vtime.Now().Add(time.Hour), vmeta{R: k, V: 1, N: 10}); err != nil {
				trigErr = errClass(err)
			}
		case "tick":
			vtime.Advance(time.Hour)
			cycleTime = vtime.Peek()
			vsched.Quiesce()
		}
		last = map[string]time.Time{}
		after, sizeAfter = read()
		last = lastBefore
		for k, t := range touched {
			last[k] = t
		}
		h.cancel()
		vsched.Quiesce()
		if h.dir != "" {
			os.RemoveAll(h.dir)
		}
	})
	c.Res.Transitions += ex.Steps
	if ex.Status != "complete" {
		c.SetCase(desc)
		c.Violation("C14/lru/"+ex.Status, ex.Status+": "+ex.Detail+" "+ex.PanicVal, nil)
		return
	}
	_ = cycleTime
	report := func(class, msg string) {
		c.SetCase(desc)
		c.Violation("C13/lru/"+p.Backend+"/"+p.Mode+"/"+trig+"/"+class, msg+" | "+desc+fmt.Sprintf(" | before=%v after=%v", before, after), nil)
	}
	newKey := ""
	if trig == "store" {
		newKey = "f"
	} else if trig == "store-colliding" {
		newKey = "e"
	}
	var evicted, kept []string
	for k := range before {
		if _, ok := after[k]; ok {
			kept = append(kept, k)
		} else {
			evicted = append(evicted, k)
		}
	}
	sort.Strings(evicted)
	sort.Strings(kept)
	c.Outcome(fmt.Sprintf("%s/%s/%s evicted=%v", p.Backend, p.Mode, trig, evicted))
	if trigErr != "" && p.Mode != "cleanup" {
		// a store refused although eviction could have made room is C09's business; here it only
		// means nothing was stored
		c.Note("trigger store failed with %s in %s", trigErr, desc)
	}
	if p.Mode == "cleanup" {
		for _, e := range ents {
			_, present := after[e.key]
			if e.expired && present {
				report("expired-entry-survived", "entry "+e.key+" had expired before the cycle but is still there")
			}
			if !e.expired && !present {
				report("fresh-entry-removed", "entry "+e.key+" was fresh but was removed by the cycle")
			}
		}
		return
	}
	target := int64(float64(limit) * 0.8)
	exempt := map[string]bool{}
	if trig == "store-colliding" && p.Backend == "memory" {
		// entries sharing the shard lock of the triggering store may be skipped
		for _, k := range []string{"a", "b", "e"} {
			exempt[k] = true
		}
		if shards == 1 {
			for k := range before {
				exempt[k] = true
			}
		}
	}
	if trig == "store" && p.Backend == "memory" {
		for _, k := range []string{"c", "d", "f"} {
			exempt[k] = true
		}
		if shards == 1 {
			for k := range before {
				exempt[k] = true
			}
		}
	}
	if sizeBefore < limit {
		if len(evicted) > 0 {
			report("evicted-below-limit", fmt.Sprintf("store was below its limit (%d < %d) but %v were evicted", sizeBefore, limit, evicted))
		}
		return
	}
	// at or over the limit
	remaining := sizeAfter
	if newKey != "" {
		remaining -= after[newKey]
	}
	anyEvictableLeft := false
	for _, k := range kept {
		if !exempt[k] {
			anyEvictableLeft = true
		}
	}
	if remaining > target && anyEvictableLeft {
		report("not-evicted-to-target", fmt.Sprintf("at/over the limit (%d >= %d) but %d bytes remain (> target %d) although evictable entries are left", sizeBefore, limit, remaining, target))
	}
	if len(evicted) > 0 {
		minimal := false
		for _, k := range evicted {
			if remaining+before[k] > target {
				minimal = true
			}
		}
		if !minimal {
			report("evicted-past-target", fmt.Sprintf("eviction did not stop at the target: %d bytes remain, target %d, evicted %v", remaining, target, evicted))
		}
	}
	// order: a must not survive b when a was used earlier (same size class), among evictable entries
	mib := int64(1 << 20)
	for _, a := range kept {
		if exempt[a] || a == newKey {
			continue
		}
		for _, b := range evicted {
			if exempt[b] {
				continue
			}
			la, lb := last[a], last[b]
			if before[a]/mib == before[b]/mib && la.Before(lb.Add(-time.Millisecond)) {
				report("lru-order", fmt.Sprintf("%s (last used %s) survived while the more recently used %s (%s) of the same size class was evicted", a, la.Sub(vtime.Epoch), b, lb.Sub(vtime.Epoch)))
			}
			if d := la.Sub(lb); d < time.Millisecond && d > -time.Millisecond && before[a]/mib > before[b]/mib {
				report("size-order", fmt.Sprintf("%s (%d B) survived while the smaller %s (%d B), last used in the same millisecond, was evicted", a, before[a], b, before[b]))
			}
		}
	}
}
