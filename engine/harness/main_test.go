//go:build verif

package main

import (
	"context"
	"fmt"
	"os"
	"strings"
	"testing"

	"reservoir/config"
	"reservoir/zzverif/vrun"
	"reservoir/zzverif/vsched"
)

func TestVF(t *testing.T) { vrun.Main(t) }

func init() { vrun.Register("main/startup", scenarioStartup) }

// scenarioStartup (C18: "accepted only if the proxy can run under it ... every accepted
// configuration is then used to start"): every combination of the web-server settings is submitted
// as an update to a default configuration; each one that is ACCEPTED is then handed to the real
// main.startWebServer (the function main runs at the next start). Accepting a configuration under
// which that function panics is the violation; refusing it is fine.
func scenarioStartup(c *vrun.Ctx) {
	bools := []bool{false, true}
	listens := []string{"localhost:8080", "127.0.0.1:0", ":0"}
	for _, dash := range bools {
		for _, api := range bools {
			for _, listen := range listens {
				c.Case()
				doc := map[string]any{"webserver": map[string]any{"dashboard_disabled": dash, "api_disabled": api, "listen": listen}}
				desc := fmt.Sprintf("dashboard_disabled=%v api_disabled=%v listen=%q", dash, api, listen)
				var accepted bool
				var startErr error
				var pan any
				ex := vsched.Run(vsched.Config{Horizon: 2000000}, func() {
					os.MkdirAll("var", 0o755)
					os.Remove("var/config.json")
					cfg := config.NewDefault()
					st, err := config.UpdatePartialFromConfig(cfg, doc)
					accepted = err == nil && st != config.UpdateStatusFailed
					if !accepted {
						return
					}
					// what the next start does with the saved file
					loaded, lerr := config.LoadOrDefault("var/config.json")
					if lerr != nil {
						startErr = lerr
						return
					}
					ctx, cancel := context.WithCancel(context.Background())
					cancel() // listeners stop at once
					func() {
						defer func() { pan = recover() }()
						startErr = startWebServer(loaded, make(chan error, 4), ctx)
					}()
					vsched.Quiesce()
				})
				c.Outcome(fmt.Sprintf("%s accepted=%v err=%v panic=%v", desc, accepted, startErr != nil, pan != nil))
				if ex.Status != "complete" && pan == nil {
					pan = ex.Status + ": " + ex.Detail + " " + ex.PanicVal
				}
				if accepted && pan != nil {
					c.SetCase(desc)
					c.Violation("C18/startup/accepted-config-panics-at-start/"+strings.ReplaceAll(fmt.Sprintf("dashboard_disabled=%v,api_disabled=%v", dash, api), " ", ""), fmt.Sprintf("the update {%s} was accepted and saved, but main.startWebServer panics under it at the next start: %v", desc, pan), nil)
				}
			}
		}
	}
}
