//go:build verif

package main

import (
	"context"
	"errors"
	"fmt"
	"net"
	"os"
	"strings"
	"testing"

	"reservoir/config"
	"reservoir/zzverif/vrun"
	"reservoir/zzverif/vsched"
)

func TestVF(t *testing.T) { vrun.Main(t) }

func init() { vrun.Register("main/startup", scenarioStartup) }

// scenarioStartup (C18: "accepted only if the proxy can run under it ... every accepted
// configuration is then used to start"): every combination of the web-server settings is submitted
// as an update to a default configuration; each one that is ACCEPTED is then handed to the real
// main.startWebServer (the function main runs at the next start). Accepting a configuration under
// which that function panics is the violation; refusing it is fine.
func scenarioStartup(c *vrun.Ctx) {
	bools := []bool{false, true}
	listens := []string{"localhost:8080", "127.0.0.1:0", ":0"}
	for _, dash := range bools {
		for _, api := range bools {
			for _, listen := range listens {
				c.Case()
				doc := map[string]any{"webserver": map[string]any{"dashboard_disabled": dash, "api_disabled": api, "listen": listen}}
				desc := fmt.Sprintf("dashboard_disabled=%v api_disabled=%v listen=%q", dash, api, listen)
				var accepted bool
				var startErr error
				var pan any
				ex := vsched.Run(vsched.Config{Horizon: 2000000}, func() {
					os.MkdirAll("var", 0o755)
					os.Remove("var/config.json")
					cfg := config.NewDefault()
					st, err := config.UpdatePartialFromConfig(cfg, doc)
					accepted = err == nil && st != config.UpdateStatusFailed
					if !accepted {
						return
					}
					// what the next start does with the saved file
					loaded, lerr := config.LoadOrDefault("var/config.json")
					if lerr != nil {
						startErr = lerr
						return
					}
					ctx, cancel := context.WithCancel(context.Background())
					cancel() // listeners stop at once
					func() {
						defer func() { pan = recover() }()
						startErr = startWebServer(loaded, make(chan error, 4), ctx)
					}()
					vsched.Quiesce()
				})
				c.Outcome(fmt.Sprintf("%s accepted=%v err=%v panic=%v", desc, accepted, startErr != nil, pan != nil))
				if ex.Status != "complete" && pan == nil {
					pan = ex.Status + ": " + ex.Detail + " " + ex.PanicVal
				}
				if accepted && pan != nil {
					c.SetCase(desc)
					c.Violation("C18/startup/accepted-config-panics-at-start/"+strings.ReplaceAll(fmt.Sprintf("dashboard_disabled=%v,api_disabled=%v", dash, api), " ", ""), fmt.Sprintf("the update {%s} was accepted and saved, but main.startWebServer panics under it at the next start: %v", desc, pan), nil)
				}
			}
		}
	}
	// listen addresses: main hands them to net/http's ListenAndServe and panics when that fails. Whether an
	// address can be listened on at all is decided by asking the real net package (port 0 / invalid forms
	// only, so no fixed port is needed): an accepted address that net.Listen refuses as malformed is a
	// configuration the proxy cannot run under.
	addrs := []string{":0", "127.0.0.1:0", "localhost:0", "[::1]:0", "no port here", "localhost", "localhost:99999", "localhost:-1", "127.0.0.1:0x50", "[::1", "a:b:c", ":", "localhost:"}
	for _, which := range []string{"proxy", "webserver"} {
		for _, addr := range addrs {
			c.Case()
			var accepted bool
			vsched.Run(vsched.Config{Horizon: 2000000}, func() {
				os.MkdirAll("var", 0o755)
				os.Remove("var/config.json")
				cfg := config.NewDefault()
				st, err := config.UpdatePartialFromConfig(cfg, map[string]any{which: map[string]any{"listen": addr}})
				accepted = err == nil && st != config.UpdateStatusFailed
			})
			var lerr error
			if l, err := net.Listen("tcp", addr); err != nil {
				lerr = err
			} else {
				l.Close()
			}
			malformed := false
			if lerr != nil {
				var ae *net.AddrError
				var pe *net.ParseError
				var de *net.DNSError
				malformed = errors.As(lerr, &ae) || errors.As(lerr, &pe) || errors.As(lerr, &de) || strings.Contains(lerr.Error(), "invalid port") || strings.Contains(lerr.Error(), "unknown port") || strings.Contains(lerr.Error(), "missing port")
			}
			c.Outcome(fmt.Sprintf("%s.listen=%q accepted=%v listenable=%v", which, addr, accepted, lerr == nil))
			if accepted && malformed {
				c.SetCase(which + ".listen=" + addr)
				c.Violation("C18/startup/accepted-listen-address-cannot-be-listened-on/"+which, fmt.Sprintf("%s.listen=%q was accepted and saved, but listening on it fails (%v): main panics on that error at the next start", which, addr, lerr), nil)
			}
		}
	}
}
