//go:build verif

package logging

import (
	"log/slog"
	"os"
	"path/filepath"
	"runtime"
	"strings"
	"syscall"
	"testing"

	"reservoir/config"
	"reservoir/zzverif/vrun"
	"reservoir/zzverif/vsched"
)

func TestVF(t *testing.T) { vrun.Main(t) }

func init() { vrun.Register("logging/sched", scenarioSched) }

// scenarioSched (C19 component level + C15): the logging component re-reads the configuration in
// its change callbacks and rebuilds the process-wide logger. After any burst of accepted changes
// it must end up writing where the latest configuration says (a marker written through slog must
// land in that file and no other), under every schedule of the notifications; in the race build
// the rebuilds must not race with each other or with a reader of the log file.
func scenarioSched(c *vrun.Ctx) {
	type scen struct {
		name    string
		updates [][]any // documents applied one after the other by one thread
		reader  bool    // a second thread opens the log file for reading meanwhile (GET /api/log)
	}
	scens := []scen{
		{"two-writer-settings-in-one-document", [][]any{{"logging.max_backups", 5, "logging.compress", false}}, false},
		{"backups-then-file", [][]any{{"logging.max_backups", 5}, {"logging.file", "B.log"}}, false},
		{"file-then-back", [][]any{{"logging.file", "B.log"}, {"logging.file", "A.log"}}, false},
		{"rebuild-vs-log-reader", [][]any{{"logging.max_backups", 5}}, true},
		{"backups-then-level", [][]any{{"logging.max_backups", 5}, {"logging.level", "DEBUG"}}, false},
		{"level-then-compress-then-level", [][]any{{"logging.level", "WARN"}, {"logging.compress", false}, {"logging.level", "ERROR"}}, false},
	}
	dir := os.Getenv("VF_SCRATCH")
	if dir == "" {
		dir = os.TempDir()
	}
	doc := func(kv []any) map[string]any {
		out := map[string]any{}
		for i := 0; i+1 < len(kv); i += 2 {
			parts := strings.Split(kv[i].(string), ".")
			m := out
			for _, p := range parts[:len(parts)-1] {
				n, ok := m[p].(map[string]any)
				if !ok {
					n = map[string]any{}
					m[p] = n
				}
				m = n
			}
			v := kv[i+1]
			if s, ok := v.(string); ok && strings.HasSuffix(s, ".log") {
				v = filepath.Join(dir, "logs", s)
			}
			m[parts[len(parts)-1]] = v
		}
		return out
	}
	for _, sc := range scens {
		sc := sc
		var want, problem, wantLevel, gotLevel string
		execs := 0
		body := func() {
			problem = ""
			// every rebuild leaves the previous file logger behind, unclosed; its descriptor goes away when
			// the collector finalises the *os.File, so collect now and then or the worker runs out of them
			if execs++; execs%100 == 0 {
				runtime.GC()
			}
			os.RemoveAll(filepath.Join(dir, "logs"))
			os.MkdirAll(filepath.Join(dir, "logs"), 0o755)
			os.MkdirAll("var", 0o755)
			os.Remove("var/config.json")
			cfg := config.NewDefault()
			// (set through an update, not through Overwrite: a command-line value would win over the
			// later API updates and the file could never change)
			if _, err := config.UpdatePartialFromConfig(cfg, doc([]any{"logging.to_stdout", false, "logging.file", "A.log"})); err != nil {
				panic(err)
			}
			vsched.Quiesce()
			initialized = false
			subs.UnsubscribeAll()
			fileLog = nil
			Init(cfg)
			vsched.Quiesce()
			vsched.GoHarness("updates", func() {
				for _, u := range sc.updates {
					if _, err := config.UpdatePartialFromConfig(cfg, doc(u)); err != nil {
						problem = "update refused: " + err.Error()
					}
				}
			})
			if sc.reader {
				vsched.GoHarness("log-reader", func() {
					if f, err := OpenLogFileRead(); err == nil {
						f.Close()
					}
				})
			}
			vsched.JoinHarness()
			vsched.Quiesce()
			want = cfg.Logging.File.Read()
			wantLevel, gotLevel = cfg.Logging.Level.Read().String(), logLevel.Level().String()
			slog.Error("VF-MARKER-" + sc.name)
			if fileLog != nil {
				fileLog.Close()
			}
			subs.UnsubscribeAll()
		}
		// the unchanged code leaks one descriptor per logger rebuild (closed by finalizers, whenever those run):
		// a replay that diverges while the worker is short of descriptors says nothing about the code
		nearFdLimit := func() bool {
			ents, err := os.ReadDir("/proc/self/fd")
			var lim syscall.Rlimit
			if err != nil || syscall.Getrlimit(syscall.RLIMIT_NOFILE, &lim) != nil {
				return true
			}
			return problem != "" || uint64(len(ents)) > lim.Cur/2
		}
		c.Explore(vrun.ExploreOpts{Name: sc.name, K: -1, E: -1, Prop: "C19", DivergenceIsCap: nearFdLimit, Body: body, Check: func(x *vsched.Exec) {
			if problem == "" && nearFdLimit() {
				problem = "more than half of the worker's file descriptors are in use"
			}
			if problem != "" {
				// (the unchanged code never closes a replaced file logger; when the worker runs out of
				// descriptors that is a limit of this harness, not a verdict)
				c.Cap("logging scenario stopped: " + problem)
				c.Stop = true
				return
			}
			if wantLevel != gotLevel {
				c.Violation("C19/logging/"+sc.name+"/log-level-does-not-follow-latest-setting", "after the accepted changes logging.level is "+wantLevel+" but the logger filters at "+gotLevel, x)
			}
			var holders []string
			ents, _ := os.ReadDir(filepath.Join(dir, "logs"))
			for _, e := range ents {
				b, _ := os.ReadFile(filepath.Join(dir, "logs", e.Name()))
				if strings.Contains(string(b), "VF-MARKER-"+sc.name) {
					holders = append(holders, e.Name())
				}
			}
			c.Outcome(sc.name + ":" + strings.Join(holders, ",") + " want=" + filepath.Base(want))
			if len(holders) != 1 || holders[0] != filepath.Base(want) {
				c.Violation("C19/logging/"+sc.name+"/logger-does-not-follow-latest-setting", "after the accepted changes logging.file is "+filepath.Base(want)+" but a line logged afterwards went to ["+strings.Join(holders, ",")+"]", x)
			}
		}})
	}
}
