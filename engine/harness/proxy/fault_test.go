//go:build verif

package proxy

import (
	"fmt"
	"os"
	"strconv"
	"strings"
	"time"

	"reservoir/zzverif/vnet"
	"reservoir/zzverif/vos"
	"reservoir/zzverif/vrun"
	"reservoir/zzverif/vtime"
)

func init() { vrun.Register("proxy/fault", scenarioFault) }

// A fault history: requests with clock advances in between; the origin always answers
// successfully (2xx / 304), so the client must always get the origin's current body.
type faultHist struct {
	name  string
	steps []string // "G" get, "X" expire (advance past lifetime), "B" origin content changes, "R" ranged get
	size  int
}

var faultHists = []faultHist{
	{"store", []string{"G"}, 24},
	{"store-hit", []string{"G", "G"}, 24},
	{"store-expire-304", []string{"G", "X", "G"}, 24},
	{"store-expire-200", []string{"G", "X", "B", "G"}, 24},
	{"store-range", []string{"G", "R"}, 24},
	{"store-empty-body", []string{"G", "G"}, 0},
	{"store-1-byte", []string{"G", "G"}, 1},
}

// runFaultHist executes one history under a fault plan and applies the C09 oracle.
// It returns the vos log of the run (for enumerating fault points).
func runFaultHist(c *vrun.Ctx, o envOpts, h faultHist, plan vos.Plan, planDesc string, pre func(e *penv)) []vos.Call {
	env := newEnv(o)
	defer env.close()
	uri := env.uniq("q")
	name := "q" + strconv.Itoa(env.seq)
	res := env.origin.Put(uri, &vnet.Res{Name: name, Size: h.size, ETag: vnet.ETagFor(name, 1), Headers: vnet.H{{"Cache-Control", "max-age=100"}}})
	desc := fmt.Sprintf("backend=%s shards=%d limit=%d budget=%d%% history=%s(%s) fault=%s", o.Backend, o.Shards, o.Limit, o.BudgetPercent, h.name, strings.Join(h.steps, " "), planDesc)
	if pre != nil {
		pre(env)
	}
	vos.Begin(plan)
	defer vos.End()
	pattern := ""
	for i, st := range h.steps {
		switch st {
		case "X":
			vtime.Advance(101 * time.Second)
		case "B":
			env.origin.Bump(uri)
		case "G", "R":
			var hs vnet.H
			if st == "R" {
				hs = vnet.H{{"Range", "bytes=0-0"}}
			}
			resp, reqs := env.do("GET", uri, hs, "")
			ok := true
			for _, rq := range reqs {
				if !(rq.Status >= 200 && rq.Status < 300 || rq.Status == 304) {
					ok = false
				}
			}
			pattern += strconv.Itoa(resp.Status) + ","
			full := string(vnet.Body(name, res.Version, h.size))
			if !ok {
				continue
			}
			bad := ""
			originAborts := strings.HasPrefix(planDesc, "origin-aborts-always")
			if originAborts {
				// the origin does not deliver a complete body: an error status or a visibly cut transfer
				// is all the proxy can give; what it must never give is a 200 that looks complete but is not
				if resp.Status == 200 && resp.Err == "" && resp.Body != full {
					c.SetCase(desc)
					c.Violation("C01/fault/truncated-body-served-as-complete/"+o.Backend+"/"+h.name, fmt.Sprintf("request %d: the origin transfer aborted, yet the client got a 200 that looks complete with %d of %d bytes | %s", i, len(resp.Body), len(full), desc), nil)
				}
				continue
			}
			switch {
			case resp.Dropped || (resp.Err != "" && resp.Status == 0):
				bad = "the client got no response: " + resp.Err
			case resp.Status >= 500:
				bad = fmt.Sprintf("the client got status %d (%s) although every origin answer was successful", resp.Status, strings.TrimSpace(resp.Body))
			case resp.Err != "":
				bad = fmt.Sprintf("the client got status %d with a broken body: %s", resp.Status, resp.Err)
			case resp.Status == 200 && resp.Body != full:
				bad = fmt.Sprintf("the client got a 200 whose body is not the origin's current body (%d of %d bytes)", len(resp.Body), len(full))
			case resp.Status == 206 && (h.size == 0 || resp.Body != full[:1]):
				bad = "the client got a 206 with the wrong bytes"
			case resp.Status != 200 && resp.Status != 206 && resp.Status != 416:
				bad = fmt.Sprintf("unexpected status %d", resp.Status)
			}
			if bad != "" {
				c.SetCase(desc)
				cls := "error-status"
				if resp.Status < 500 {
					cls = "bad-answer"
				}
				c.Violation("C09/fault/"+cls+"/"+o.Backend+"/"+h.name+"/"+faultClass(planDesc), fmt.Sprintf("request %d: %s | %s", i, bad, desc), nil)
				break
			}
		}
	}
	c.Outcome(o.Backend + "/" + h.name + "/" + faultClass(planDesc) + ":" + pattern)
	return vos.End()
}

func faultClass(p string) string {
	if i := strings.IndexAny(p, "#="); i > 0 {
		return p[:i]
	}
	return p
}

func scenarioFault(c *vrun.Ctx) {
	caseNo := 0
	mine := func() bool { caseNo++; return c.Mine(caseNo) }
	for _, be := range []string{"memory", "file"} {
		base := envOpts{Backend: be, DefaultMaxAgeS: 1000}
		for _, h := range faultHists {
			// no fault at all
			var log []vos.Call
			if mine() {
				c.Case()
				log = runFaultHist(c, base, h, vos.NoPlan(), "none", nil)
			} else {
				log = runFaultHist(nullCtx(c), base, h, vos.NoPlan(), "none", nil)
			}
			if be == "file" {
				// every logged FS call fails, one at a time
				for i := range log {
					if !mine() {
						continue
					}
					c.Case()
					runFaultHist(c, base, h, vos.Plan{FailCall: i, WriteLimit: -1}, "fs-call-fails#"+strconv.Itoa(i)+"("+log[i].Op+")", nil)
				}
				// every write-failure byte count
				for b := 0; b <= h.size; b++ {
					if !mine() {
						continue
					}
					c.Case()
					runFaultHist(c, base, h, vos.Plan{FailCall: -1, WriteLimit: b}, "write-fails-after="+strconv.Itoa(b), nil)
				}
				// the cache directory disappears before the first request
				if mine() {
					c.Case()
					runFaultHist(c, base, h, vos.NoPlan(), "cache-dir-removed", func(e *penv) { os.RemoveAll(e.dir) })
				}
			}
			// the cache is full and nothing is evictable from inside the store (one shard)
			for _, shards := range []int{1, 32} {
				if !mine() {
					continue
				}
				c.Case()
				o := base
				o.Shards, o.Limit = shards, 30
				runFaultHist(c, o, h, vos.NoPlan(), "cache-full", func(e *penv) {
					e.origin.Put("/filler", &vnet.Res{Name: "filler", Size: 28, Headers: vnet.H{{"Cache-Control", "max-age=1000"}}})
					e.do("GET", "/filler", nil, "")
				})
			}
			// the origin transfer aborts after every byte count, once (the retry is healthy) and persistently
			for b := 0; b < h.size; b++ {
				for _, mode := range []string{"once", "always"} {
					if !mine() {
						continue
					}
					c.Case()
					b, mode := b, mode
					runFaultHist(c, base, h, vos.NoPlan(), "origin-aborts-"+mode+"-after="+strconv.Itoa(b), func(e *penv) {
						for _, r := range e.origin.Resources {
							if mode == "once" {
								r.AbortOnce, r.AbortOnceSet = b, true
							} else {
								r.AbortAfter = b
							}
						}
					})
				}
			}
			if be == "memory" && mine() {
				c.Case()
				o := base
				o.BudgetPercent = -1 // stands for 0 % (a zero value would take the default)
				runFaultHist(c, o, h, vos.NoPlan(), "memory-budget-0", nil)
			}
		}
	}
}

// nullCtx returns a context whose reports are discarded (used to learn the FS call log).
func nullCtx(c *vrun.Ctx) *vrun.Ctx {
	d := *c
	d.Res = &vrun.Result{Outcomes: map[string]int{}, Bounds: map[string]any{}}
	return d.Discard()
}
