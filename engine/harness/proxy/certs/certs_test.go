//go:build verif

package certs

import (
	"crypto/ecdsa"
	"crypto/elliptic"
	"crypto/rand"
	"crypto/tls"
	"crypto/x509"
	"crypto/x509/pkix"
	"encoding/pem"
	"fmt"
	"math/big"
	"os"
	"path/filepath"
	"strconv"
	"strings"
	"testing"
	"time"

	"reservoir/zzverif/vrun"
	"reservoir/zzverif/vsched"
	"reservoir/zzverif/vtime"
)

func TestVF(t *testing.T) { vrun.Main(t) }

func init() {
	vrun.Register("certs/histories", scenarioHistories)
	vrun.Register("certs/sched", scenarioSched)
}

var caFiles struct{ cert, key string }
var caPool *x509.CertPool

func newCA() *PrivateCA {
	if caFiles.cert == "" {
		priv, _ := ecdsa.GenerateKey(elliptic.P256(), rand.Reader)
		tmpl := x509.Certificate{SerialNumber: big.NewInt(1), Subject: pkix.Name{CommonName: "vf ca"},
			NotBefore: vtime.Epoch.Add(-24 * time.Hour), NotAfter: vtime.Epoch.Add(20 * 365 * 24 * time.Hour),
			KeyUsage: x509.KeyUsageCertSign | x509.KeyUsageDigitalSignature, BasicConstraintsValid: true, IsCA: true}
		der, err := x509.CreateCertificate(rand.Reader, &tmpl, &tmpl, &priv.PublicKey, priv)
		if err != nil {
			panic(err)
		}
		dir := os.Getenv("VF_SCRATCH")
		if dir == "" {
			dir = os.TempDir()
		}
		caFiles.cert, caFiles.key = filepath.Join(dir, "ca.crt"), filepath.Join(dir, "ca.key")
		// the certificate file is a bundle, as CA files often are: the issuing certificate first, then
		// the root above it (here: another self-signed certificate). The configured CA is the first one.
		rootPriv, _ := ecdsa.GenerateKey(elliptic.P256(), rand.Reader)
		rootTmpl := tmpl
		rootTmpl.SerialNumber, rootTmpl.Subject = big.NewInt(2), pkix.Name{CommonName: "vf root above the ca"}
		rootDer, err := x509.CreateCertificate(rand.Reader, &rootTmpl, &rootTmpl, &rootPriv.PublicKey, rootPriv)
		if err != nil {
			panic(err)
		}
		bundle := append(pem.EncodeToMemory(&pem.Block{Type: "CERTIFICATE", Bytes: der}), pem.EncodeToMemory(&pem.Block{Type: "CERTIFICATE", Bytes: rootDer})...)
		os.WriteFile(caFiles.cert, bundle, 0o644)
		kb, _ := x509.MarshalPKCS8PrivateKey(priv)
		os.WriteFile(caFiles.key, pem.EncodeToMemory(&pem.Block{Type: "PRIVATE KEY", Bytes: kb}), 0o600)
		caPool = x509.NewCertPool()
		c, _ := x509.ParseCertificate(der)
		caPool.AddCert(c)
	}
	ca, err := NewPrivateCA(caFiles.cert, caFiles.key)
	if err != nil {
		panic(err)
	}
	return ca
}

// certProblem checks one returned certificate against the property.
func certProblem(cert *tls.Certificate, host string, now time.Time) string {
	if cert == nil || cert.Leaf == nil {
		return "no certificate / no parsed leaf"
	}
	leaf := cert.Leaf
	if now.Before(leaf.NotBefore) || now.After(leaf.NotAfter) {
		return fmt.Sprintf("outside its validity period: now %s, valid %s .. %s", now.Format(time.RFC3339), leaf.NotBefore.Format(time.RFC3339), leaf.NotAfter.Format(time.RFC3339))
	}
	if _, err := leaf.Verify(x509.VerifyOptions{Roots: caPool, CurrentTime: now, DNSName: host, KeyUsages: []x509.ExtKeyUsage{x509.ExtKeyUsageServerAuth}}); err != nil {
		return "does not verify for " + host + ": " + err.Error()
	}
	if n := len(leaf.DNSNames) + len(leaf.IPAddresses) + len(leaf.URIs) + len(leaf.EmailAddresses); n != 1 {
		return fmt.Sprintf("names %d subjects (DNS %v, IP %v), not exactly %s", n, leaf.DNSNames, leaf.IPAddresses, host)
	}
	pub, ok := leaf.PublicKey.(*ecdsa.PublicKey)
	priv, ok2 := cert.PrivateKey.(*ecdsa.PrivateKey)
	if !ok || !ok2 || !pub.Equal(&priv.PublicKey) {
		return "private key does not match the certificate"
	}
	return ""
}

// scenarioHistories: all sequences over {request host h, request host g, advance 239 h,
// advance 1 h, advance 1 s} of the given depth.
func scenarioHistories(c *vrun.Ctx) {
	var p struct {
		Depth int `json:"depth"`
	}
	c.Params(&p)
	// h, H and h. are three spellings of one host (letter case, trailing dot): whatever the cache
	// does with them, the certificate returned must name the host as it was asked for
	alphabet := []string{"h", "H", "h.", "g", "+239h", "+1h", "+1s"}
	n := len(alphabet)
	total := 1
	for i := 0; i < p.Depth; i++ {
		total *= n
	}
	for hi := 0; hi < total; hi++ {
		if !c.Mine(hi) {
			continue
		}
		if c.Expired() {
			return
		}
		hist := make([]string, p.Depth)
		x := hi
		for i := p.Depth - 1; i >= 0; i-- {
			hist[i] = alphabet[x%n]
			x /= n
		}
		c.Case()
		vtime.Reset()
		ca := newCA()
		type issued struct {
			cert *tls.Certificate
			at   time.Time
		}
		last := map[string]issued{}
		pattern := ""
		for step, ev := range hist {
			switch ev {
			case "+239h":
				vtime.Advance(239 * time.Hour)
			case "+1h":
				vtime.Advance(time.Hour)
			case "+1s":
				vtime.Advance(time.Second)
			default:
				host := map[string]string{"h": "host-h.test", "H": "HOST-H.Test", "h.": "host-h.test.", "g": "10.1.2.3"}[ev]
				now := vtime.Peek()
				cert, err := ca.GetCertForHost(host + ":443")
				if err != nil {
					c.SetCase(strings.Join(hist, " "))
					c.Violation("C11/history/error", fmt.Sprintf("step %d: GetCertForHost(%s): %v | history %v", step, host, err, hist), nil)
					continue
				}
				if prob := certProblem(cert, host, now); prob != "" {
					c.SetCase(strings.Join(hist, " "))
					c.Violation("C11/history/invalid-certificate-returned", fmt.Sprintf("step %d: certificate for %s %s | history %v", step, host, prob, hist), nil)
				}
				if prev, ok := last[host]; ok {
					stillValid := !now.After(prev.cert.Leaf.NotAfter)
					if stillValid && prev.cert != cert {
						c.SetCase(strings.Join(hist, " "))
						c.Violation("C11/history/not-reused-while-valid", fmt.Sprintf("step %d: a new certificate was issued for %s although the previous one is valid until %s (now %s) | history %v", step, host, prev.cert.Leaf.NotAfter.Format(time.RFC3339), now.Format(time.RFC3339), hist), nil)
					}
					if prev.cert == cert {
						pattern += "r"
					} else {
						pattern += "n"
					}
				} else {
					pattern += "f"
				}
				last[host] = issued{cert, now}
			}
		}
		c.Outcome(pattern)
		if hi%97 == 0 {
			c.Sample(map[string]any{"history": hist, "pattern": pattern})
		}
	}
}

// scenarioSched: concurrent first requests for one host, and for different hosts (whatever the
// issuing code shares between two certificates under construction must not leak from one into
// the other: each certificate names exactly the host it was requested for).
func scenarioSched(c *vrun.Ctx) {
	type variant struct {
		nthreads int
		distinct bool
	}
	for _, v := range []variant{{2, false}, {3, false}, {2, true}, {3, true}} {
		nthreads := v.nthreads
		hostOf := func(i int) string {
			if !v.distinct {
				return "new-host.test"
			}
			if i == 2 {
				return "10.1.2.3" // an IP-address host among DNS names
			}
			return "host-" + strconv.Itoa(i+1) + ".test"
		}
		var got []*tls.Certificate
		var errs []error
		var final [][2]*tls.Certificate
		var now time.Time
		name := "concurrent-first-requests/" + strconv.Itoa(nthreads)
		if v.distinct {
			name = "concurrent-first-requests-different-hosts/" + strconv.Itoa(nthreads)
		}
		body := func() {
			vtime.Reset()
			ca := newCA()
			got = make([]*tls.Certificate, nthreads)
			errs = make([]error, nthreads)
			final = make([][2]*tls.Certificate, nthreads)
			for i := 0; i < nthreads; i++ {
				i := i
				vsched.GoHarness("T"+strconv.Itoa(i+1), func() {
					got[i], errs[i] = ca.GetCertForHost(hostOf(i) + ":443")
				})
			}
			vsched.JoinHarness()
			now = vtime.Peek()
			for i := 0; i < nthreads; i++ {
				final[i][0], _ = ca.GetCertForHost(hostOf(i) + ":443")
				final[i][1], _ = ca.GetCertForHost(hostOf(i) + ":8443")
			}
		}
		c.Explore(vrun.ExploreOpts{Name: name, K: -1, E: -1, Prop: "C11", Body: body, Check: func(x *vsched.Exec) {
			distinct := map[*tls.Certificate]bool{}
			for i := range got {
				if errs[i] != nil {
					c.Violation("C11/sched/error", "GetCertForHost failed: "+errs[i].Error(), x)
					continue
				}
				if prob := certProblem(got[i], hostOf(i), now); prob != "" {
					c.Violation("C11/sched/invalid-certificate", "thread "+strconv.Itoa(i+1)+" asked for "+hostOf(i)+": certificate "+prob, x)
				}
				distinct[got[i]] = true
			}
			for i := range final {
				if final[i][0] != final[i][1] || !distinct[final[i][0]] {
					c.Violation("C11/sched/unstable-after-quiescence", "after all requests returned, repeated requests for "+hostOf(i)+" do not return one stable certificate out of the issued ones", x)
				} else if prob := certProblem(final[i][0], hostOf(i), now); prob != "" {
					c.Violation("C11/sched/invalid-certificate", "the certificate cached for "+hostOf(i)+" "+prob, x)
				}
			}
			c.Outcome(name + ":" + strconv.Itoa(len(distinct)))
		}})
	}
}
