//go:build verif

package proxy

import (
	"fmt"
	"net/http"
	"strconv"
	"strings"
	"time"

	"reservoir/zzverif/vnet"
	"reservoir/zzverif/vrun"
	"reservoir/zzverif/vtime"
)

func init() { vrun.Register("proxy/reval", scenarioReval) }

type revalParams struct {
	Backend string `json:"backend"`
	Depth   int    `json:"depth"`
}

// Events: G<k> = GET with client conditional kind k; X = advance to 1 s past the model's
// expiry; Y = advance to 1 s before it; B = origin content changes; F404/F500 = the
// origin answers the next request with that status.
var revalAlphabet = []string{"G0", "G1", "G2", "G3", "G4", "G5", "G6", "G7", "X", "Y", "B", "F404", "F500", "f503"}

// The last three: the stored response had a strong ETag and the origin's 304 prints it in weak
// form, prints another tag, or prints no validator at all. A 304 says "what you have is still
// good" whatever it prints, so it renews the stored entry all the same.
// etag-304-payload-fields: the 304 carries Content-Length: 0 and a Content-Type of its own (fields
// that describe the 304's empty payload, not the stored body).
var revalSchemes = []string{"etag", "lm", "both", "none", "weak", "etag-304-weakens", "etag-304-rotates", "etag-304-bare", "etag-304-payload-fields", "weak-sticky-200"}

func clientConditional(kind string, now time.Time) vnet.H {
	switch kind {
	case "G1":
		return vnet.H{{"If-None-Match", `"zzz-client"`}}
	case "G2":
		return vnet.H{{"If-Modified-Since", httpDate(now.Add(-time.Hour))}}
	case "G3":
		return vnet.H{{"If-Modified-Since", now.Add(-time.Hour).UTC().Format(time.RFC850)}}
	case "G4":
		return vnet.H{{"If-Modified-Since", "yesterday"}}
	case "G5":
		return vnet.H{{"If-Match", `"zzz-client"`}, {"If-Unmodified-Since", "garbage-date"}}
	case "G7":
		// a client's own cache directives and dates say what that client will accept; they are no part of how
		// long the stored response (or its renewal by a 304) lives
		return vnet.H{{"Cache-Control", "max-age=86400"}, {"Expires", httpDate(now.Add(48 * time.Hour))}}
	case "G6":
		// the client declares the validator fields hop-by-hop: that concerns its own connection, not what
		// the proxy asks the origin with
		return vnet.H{{"Connection", "If-None-Match, If-Modified-Since"}}
	}
	return nil
}

func scenarioReval(c *vrun.Ctx) {
	var p revalParams
	c.Params(&p)
	const defaultAge = 1000
	env := newEnv(envOpts{Backend: p.Backend, DefaultMaxAgeS: defaultAge})
	defer env.close()
	n := len(revalAlphabet)
	total := 1
	for i := 0; i < p.Depth; i++ {
		total *= n
	}
	caseNo := 0
	for _, scheme := range revalSchemes {
		for hi := 0; hi < total; hi++ {
			caseNo++
			if caseNo%512 == 0 && c.Expired() {
				return
			}
			if !c.Mine(caseNo) {
				continue
			}
			hist := make([]string, p.Depth)
			x := hi
			gets := 0
			for i := p.Depth - 1; i >= 0; i-- {
				hist[i] = revalAlphabet[x%n]
				x /= n
				if hist[i][0] == 'G' {
					gets++
				}
			}
			if gets == 0 || hist[p.Depth-1][0] != 'G' {
				continue // nothing observed at the end
			}
			c.Case()
			runRevalCase(c, env, scheme, hist, defaultAge)
		}
	}
	// the same histories at depth 3 on a machine whose local zone is not UTC: dates the proxy puts on
	// the wire are instants, whatever the zone of the clock they were read from
	vtime.Local = time.FixedZone("UTC+3", 3*3600)
	n3 := n * n * n
	for _, scheme := range []string{"etag", "lm", "none"} {
		for hi := 0; hi < n3; hi++ {
			caseNo++
			if !c.Mine(caseNo) {
				continue
			}
			hist := make([]string, 3)
			x := hi
			gets := 0
			for i := 2; i >= 0; i-- {
				hist[i] = revalAlphabet[x%n]
				x /= n
				if hist[i][0] == 'G' {
					gets++
				}
			}
			if gets == 0 || hist[2][0] != 'G' {
				continue
			}
			c.Case()
			runRevalCase(c, env, scheme+"@utc+3", hist, defaultAge)
		}
	}
	vtime.Local = nil
	// histories that start from a stored entry that has just gone stale (the prefix "G0 X" is fixed):
	// what happens after a first revalidation needs two more events than the depth bound allows from
	// the empty state
	for _, scheme := range []string{"etag", "lm", "both", "etag-304-weakens"} {
		for hi := 0; hi < n3; hi++ {
			caseNo++
			if !c.Mine(caseNo) {
				continue
			}
			hist := []string{"G0", "X", "", "", ""}
			x := hi
			for i := 4; i >= 2; i-- {
				hist[i] = revalAlphabet[x%n]
				x /= n
			}
			if hist[4][0] != 'G' {
				continue
			}
			c.Case()
			runRevalCase(c, env, scheme, hist, defaultAge)
		}
	}
	c.Res.Bounds["depth"] = p.Depth
	c.Res.Bounds["alphabet"] = revalAlphabet
	c.Res.Bounds["validator_schemes"] = revalSchemes
}

func runRevalCase(c *vrun.Ctx, env *penv, scheme string, hist []string, defaultAge int) {
	uri := env.uniq("v")
	name := "v" + strconv.Itoa(env.seq)
	res := &vnet.Res{Name: name, Size: 24, Headers: vnet.H{{"Cache-Control", "max-age=100"}, {"Content-Type", "application/x-reval"}}}
	lm0 := vtime.Peek().Add(-48 * time.Hour).Truncate(time.Second)
	setValidators := func() {
		res.ETag, res.LM = "", time.Time{}
		switch strings.TrimSuffix(scheme, "@utc+3") {
		case "etag":
			res.ETag = vnet.ETagFor(name, res.Version)
		case "lm":
			res.LM = lm0.Add(time.Duration(res.Version) * time.Hour)
		case "both":
			res.ETag = vnet.ETagFor(name, res.Version)
			res.LM = lm0.Add(time.Duration(res.Version) * time.Hour)
		case "weak":
			res.ETag = "W/" + vnet.ETagFor(name, res.Version)
		case "etag-304-weakens":
			res.ETag = vnet.ETagFor(name, res.Version)
			res.ETag304 = "W/" + res.ETag
		case "etag-304-rotates":
			res.ETag = vnet.ETagFor(name, res.Version)
			res.ETag304 = `"rotated-` + strconv.Itoa(res.Version) + `"`
		case "etag-304-bare":
			res.ETag = vnet.ETagFor(name, res.Version)
			res.ETag304 = "-"
		case "weak-sticky-200":
			// a weak tag that stays the same while the content changes, on an origin that ignores
			// conditionals: every revalidation is answered 200 with the current body, which replaces the stored one
			res.ETag = `W/"sticky-` + name + `"`
			res.NoConditionals = true
		case "etag-304-payload-fields":
			res.ETag = vnet.ETagFor(name, res.Version)
			res.Headers304 = vnet.H{{"Content-Length", "0"}, {"Content-Type", "text/html; charset=utf-8"}, {"X-Only-On-304", "yes"}}
		}
	}
	res.Version = 1
	setValidators()
	env.origin.Put(uri, res)
	desc := "validators=" + scheme + " history=" + strings.Join(hist, " ")
	report := func(kind, msg string) {
		c.SetCase(desc)
		c.Violation("C06/reval/"+kind+"/"+scheme, msg+" | "+desc, nil)
		if kind == "stale-served-without-contact" || kind == "contact-while-fresh" {
			// the same observation is C03's: served without contacting the origin exactly while fresh
			c.Violation("C03/reval/"+kind+"/"+scheme, msg+" | "+desc, nil)
		}
	}
	// model
	type storedT struct {
		version   int
		etag      string
		lm        time.Time
		storedAt  time.Time
		expiresAt time.Time
	}
	var st *storedT
	mustContactNext := false // after a relayed non-200/304 answer nothing may be reused without contact
	pattern := ""
	for step, ev := range hist {
		switch {
		case ev == "X":
			if st != nil && st.expiresAt.After(vtime.Peek()) {
				vtime.Advance(st.expiresAt.Sub(vtime.Peek()) + time.Second)
			} else {
				vtime.Advance(time.Second)
			}
		case ev == "Y":
			if st != nil && st.expiresAt.Sub(vtime.Peek()) > 2*time.Second {
				vtime.Advance(st.expiresAt.Sub(vtime.Peek()) - time.Second)
			} else {
				vtime.Advance(time.Second)
			}
		case ev == "B":
			res.Version++
			setValidators()
			env.origin.Bump(uri)
			res.Version-- // Bump incremented too
			setValidators()
			res.Version++
			setValidators()
		case ev == "F404":
			res.Force = 404
		case ev == "F500":
			res.Force = 500
		case ev == "f503":
			res.ForceOnce = 503 // a transient error: only the next upstream request fails
		case ev[0] == 'G':
			now := vtime.Peek()
			forced := res.Force
			resp, reqs := env.do("GET", uri, clientConditional(ev, now), "")
			res.Force = 0
			res.ForceOnce = 0
			if resp.Status == 200 {
				// C01: a body is delivered with the length and content type the origin sent with that very body
				if ct := resp.Header.Get("Content-Type"); ct != "application/x-reval" {
					c.SetCase(desc)
					c.Violation("C01/reval/content-type-of-another-response/"+scheme, fmt.Sprintf("step %d: the client received a 200 with Content-Type %q; the origin sent this body with application/x-reval | %s", step, ct, desc), nil)
				}
				if cl := resp.Header.Get("Content-Length"); cl != "" && cl != strconv.Itoa(len(resp.Body)) {
					c.SetCase(desc)
					c.Violation("C01/reval/length-of-another-response/"+scheme, fmt.Sprintf("step %d: the client received a 200 with Content-Length %s and %d body bytes | %s", step, cl, len(resp.Body), desc), nil)
				}
			}
			fresh := st != nil && now.Before(st.expiresAt) && !mustContactNext
			stale := st != nil && !fresh
			if st != nil && now.Equal(st.expiresAt) && !mustContactNext {
				// the instant age == lifetime is free ("at most the lifetime"): accept either behaviour
				fresh, stale = len(reqs) == 0, len(reqs) != 0
			}
			// (a) nothing the client sent as a conditional may reach the origin
			for _, rq := range reqs {
				for _, hn := range []string{"If-Match", "If-Unmodified-Since"} {
					if v := rq.Header.Get(hn); v != "" {
						report("client-conditional-forwarded", fmt.Sprintf("step %d: upstream request carries the client's %s: %s", step, hn, v))
					}
				}
				inm, ims := rq.Header.Get("If-None-Match"), rq.Header.Get("If-Modified-Since")
				if inm != "" && (st == nil || inm != st.etag) {
					report("client-conditional-forwarded", fmt.Sprintf("step %d: upstream If-None-Match %s is not the stored ETag", step, inm))
				}
				if ims != "" {
					ok := false
					if st != nil {
						if t, err := http.ParseTime(ims); err == nil {
							// the stored Last-Modified, or (when the origin sent none) the receipt date
							if !st.lm.IsZero() && t.Equal(st.lm) {
								ok = true
							}
							if st.lm.IsZero() && !t.Before(st.storedAt.Add(-2*time.Second)) && !t.After(st.storedAt.Add(2*time.Second)) {
								ok = true
							}
						}
					}
					if !ok {
						report("client-conditional-forwarded", fmt.Sprintf("step %d: upstream If-Modified-Since %q does not come from the stored response", step, ims))
					}
				}
			}
			switch {
			case fresh:
				pattern += "h"
				if len(reqs) != 0 {
					report("contact-while-fresh", fmt.Sprintf("step %d contacted the origin although the entry was fresh for another %v", step, st.expiresAt.Sub(now)))
				}
				if resp.Status != 200 || !vnet.IsSlice([]byte(resp.Body), vnet.Candidate{R: name, V: st.version, N: 24}, 0) || len(resp.Body) != 24 {
					report("wrong-body", fmt.Sprintf("step %d (fresh hit): status %d, body is not stored version %d", step, resp.Status, st.version))
				}
			case stale:
				if len(reqs) == 0 {
					report("stale-served-without-contact", fmt.Sprintf("step %d served a stale entry (expired %v ago) without asking the origin", step, now.Sub(st.expiresAt)))
					pattern += "S"
					break
				}
				rq := reqs[0]
				if rq.Status == 304 && len(reqs) > 1 {
					report("304-not-honoured", fmt.Sprintf("step %d: the origin answered the revalidation with 304 (ETag %q, stored %q), yet the proxy made %d further upstream request(s) instead of keeping the stored body in service", step, res.ETag304, st.etag, len(reqs)-1))
				}
				if st.etag != "" && rq.Header.Get("If-None-Match") != st.etag {
					report("stored-validator-missing", fmt.Sprintf("step %d: revalidation request lacks If-None-Match %s (has %q)", step, st.etag, rq.Header.Get("If-None-Match")))
				}
				if !st.lm.IsZero() && rq.Header.Get("If-Modified-Since") != httpDate(st.lm) {
					report("stored-validator-missing", fmt.Sprintf("step %d: revalidation request lacks If-Modified-Since %s (has %q)", step, httpDate(st.lm), rq.Header.Get("If-Modified-Since")))
				}
				fallthrough
			default:
				// miss or revalidation: judge by what the origin answered
				if len(reqs) == 0 {
					report("no-contact-on-miss", fmt.Sprintf("step %d: nothing stored but the origin was not contacted", step))
					break
				}
				if st == nil || mustContactNext {
					for _, rq := range reqs {
						if st == nil && (rq.Header.Get("If-None-Match") != "" || rq.Header.Get("If-Modified-Since") != "") {
							report("conditional-on-miss", fmt.Sprintf("step %d: nothing is stored but the upstream request is conditional (INM=%q IMS=%q)", step, rq.Header.Get("If-None-Match"), rq.Header.Get("If-Modified-Since")))
						}
					}
				}
				last := reqs[len(reqs)-1]
				switch last.Status {
				case 304:
					pattern += "r"
					if st == nil {
						report("304-without-entry", fmt.Sprintf("step %d: origin answered 304 but the proxy holds nothing; client got %d", step, resp.Status))
						break
					}
					if resp.Status != 200 || len(resp.Body) != 24 || !vnet.IsSlice([]byte(resp.Body), vnet.Candidate{R: name, V: st.version, N: 24}, 0) {
						report("304-wrong-answer", fmt.Sprintf("step %d: origin answered 304 but the client got status %d / a body that is not stored version %d (%s)", step, resp.Status, st.version, resp.Err))
					}
					st.expiresAt = now.Add(time.Duration(defaultAge) * time.Second)
					mustContactNext = false
				case 200:
					pattern += "m"
					if resp.Status != 200 || len(resp.Body) != 24 || !vnet.IsSlice([]byte(resp.Body), vnet.Candidate{R: name, V: res.Version, N: 24}, 0) {
						report("200-wrong-answer", fmt.Sprintf("step %d: origin answered 200 with version %d but the client got status %d / another body (%s)", step, res.Version, resp.Status, resp.Err))
					}
					viaFallback := false
					for _, rq := range reqs[:len(reqs)-1] {
						if rq.Status != 200 && rq.Status != 304 {
							viaFallback = true // an earlier upstream request of this exchange failed: this 200 was relayed directly
						}
					}
					if viaFallback {
						mustContactNext = true
						break
					}
					st = &storedT{version: res.Version, etag: res.ETag, lm: res.LM, storedAt: now, expiresAt: now.Add(100 * time.Second)}
					mustContactNext = false
				default:
					pattern += "e"
					if resp.Status != last.Status {
						report("status-not-relayed", fmt.Sprintf("step %d: origin answered %d (forced %d) but the client got %d (%s)", step, last.Status, forced, resp.Status, resp.Err))
					}
					// nothing stored from this answer: whatever is kept must be revalidated next time
					mustContactNext = true
				}
			}
		}
	}
	c.Outcome(scheme + ":" + pattern)
	if env.seq%1499 == 0 {
		c.Sample(map[string]any{"case": desc, "pattern": pattern})
	}
}
