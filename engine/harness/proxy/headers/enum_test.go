//go:build verif

package headers

import (
	"fmt"
	"math/big"
	"net/http"
	"regexp"
	"strings"
	"testing"

	"reservoir/zzverif/vrun"
)

func TestVF(t *testing.T) { vrun.Main(t) }

func init() { vrun.Register("headers/range", scenarioRange) }

type rangeParams struct {
	MaxLen int     `json:"max_len"`
	Sizes  []int64 `json:"sizes"`
}

var reWF = regexp.MustCompile(`^bytes=(?:(\d+)-(\d*)|-(\d+))$`)

// RefRange is the independent RFC 9110 reference (appendix B3): the set of 206 slices
// that may be served for header h on a representation of n bytes (at most one).
func RefRange(h string, n int64) (first, last int64, ok bool, wf bool) {
	s := strings.NewReplacer(" ", "", "\t", "").Replace(h)
	m := reWF.FindStringSubmatch(s)
	if m == nil {
		return 0, 0, false, false
	}
	N := big.NewInt(n)
	if m[3] != "" { // suffix
		k, _ := new(big.Int).SetString(m[3], 10)
		if k.Sign() == 0 || n == 0 {
			return 0, 0, false, true
		}
		if k.Cmp(N) >= 0 {
			return 0, n - 1, true, true
		}
		return n - k.Int64(), n - 1, true, true
	}
	f, _ := new(big.Int).SetString(m[1], 10)
	if f.Cmp(N) >= 0 {
		return 0, 0, false, true
	}
	if m[2] == "" {
		return f.Int64(), n - 1, true, true
	}
	l, _ := new(big.Int).SetString(m[2], 10)
	if l.Cmp(f) < 0 {
		return 0, 0, false, false // first > last: invalid range-spec
	}
	if l.Cmp(N) >= 0 {
		return f.Int64(), n - 1, true, true // a recipient clamps; refusing is accepted too
	}
	return f.Int64(), l.Int64(), true, true
}

// evalRange runs the implementation's parser + slicer, catching panics.
func evalRange(h string, n int64) (start, end int64, served bool, panicked string) {
	defer func() {
		if r := recover(); r != nil {
			panicked = fmt.Sprint(r)
		}
	}()
	hd := ParseHeaderDirective(http.Header{"Range": []string{h}})
	if !hd.Range.IsPresent() {
		return 0, 0, false, ""
	}
	s, e, err := hd.Range.Value().SliceSize(n)
	if err != nil {
		return 0, 0, false, ""
	}
	return s, e, true, ""
}

// RangeHeaders enumerates the header alphabet: prefixes x all tails up to maxLen, plus
// 64-bit boundary numbers in every position.
func RangeHeaders(maxLen int, visit func(h string)) {
	prefixes := []string{"bytes=", "bytes", "Bytes=", "bytes =", "items=", "=", ""}
	sigma := []byte{'0', '1', '5', '9', '-', ',', ' ', 'x'}
	var rec func(cur []byte)
	for _, p := range prefixes {
		rec = func(cur []byte) {
			visit(p + string(cur))
			if len(cur) == maxLen {
				return
			}
			for _, ch := range sigma {
				rec(append(cur, ch))
			}
		}
		rec(nil)
	}
	big := []string{"9223372036854775807", "9223372036854775808", "18446744073709551615", "18446744073709551616", "18446744073709551620", "99999999999999999999", "00000000000000000000000005"}
	for _, b := range big {
		for _, t := range []string{b + "-", "-" + b, "0-" + b, b + "-" + b, "5-" + b, b + "-5", "1-" + b + ",", b} {
			visit("bytes=" + t)
		}
	}
	for _, t := range []string{"0-0\t", "\t0-0", "0 - 0", "0-0-", "0--0", "0-0,", "0-,", "-,", ",", "--", "-0", "0", " ", "0-5x", "0x-5", "-5x"} {
		visit("bytes=" + t)
	}
}

func scenarioRange(c *vrun.Ctx) {
	var p rangeParams
	c.Params(&p)
	i := 0
	RangeHeaders(p.MaxLen, func(h string) {
		i++
		if !c.Mine(i) || c.Stop {
			return
		}
		for _, n := range p.Sizes {
			c.Case()
			rf, rl, rok, wf := RefRange(h, n)
			s, e, served, pan := evalRange(h, n)
			if pan != "" {
				c.SetCase(fmt.Sprintf("Range: %q size %d", h, n))
				cls := "other"
				switch {
				case strings.Contains(pan, "index out of range"):
					cls = "index-out-of-range"
				case strings.Contains(pan, "slice bounds"):
					cls = "slice-bounds"
				}
				c.Violation("C16/range-parser/panic/"+cls, fmt.Sprintf("Range header %q (size %d) makes the parser panic: %s", h, n, pan), nil)
				c.Violation("C07/range-parser/panic/"+cls, fmt.Sprintf("Range header %q (size %d) makes the parser panic: %s", h, n, pan), nil)
				c.Outcome("panic")
				continue
			}
			if !served {
				c.Outcome(fmt.Sprintf("refused wf=%v refok=%v", wf, rok))
				continue
			}
			c.Outcome(fmt.Sprintf("served wf=%v refok=%v", wf, rok))
			switch {
			case s < 0 || e >= n || s > e:
				c.SetCase(fmt.Sprintf("Range: %q size %d", h, n))
				c.Violation("C07/range-parser/slice-outside-representation", fmt.Sprintf("Range %q on %d bytes gives slice %d-%d, outside the representation", h, n, s, e), nil)
			case !wf:
				c.SetCase(fmt.Sprintf("Range: %q size %d", h, n))
				c.Violation("C07/range-parser/served-malformed/"+malformedClass(h), fmt.Sprintf("Range %q is not a well-formed single byte range but slice %d-%d of %d would be served", h, s, e, n), nil)
			case !rok:
				c.SetCase(fmt.Sprintf("Range: %q size %d", h, n))
				c.Violation("C07/range-parser/served-unsatisfiable", fmt.Sprintf("Range %q is not satisfiable on %d bytes but slice %d-%d would be served", h, n, s, e), nil)
			case s != rf || e != rl:
				c.SetCase(fmt.Sprintf("Range: %q size %d", h, n))
				cls := "wrong-slice"
				if len(h) > 24 {
					cls = "wrong-slice-big-number"
				}
				c.Violation("C07/range-parser/"+cls, fmt.Sprintf("Range %q on %d bytes gives slice %d-%d, the requested range is %d-%d", h, n, s, e, rf, rl), nil)
			}
		}
	})
	c.Res.Bounds["max_tail_len"] = p.MaxLen
	c.Res.Bounds["sizes"] = p.Sizes
	c.Sample(map[string]any{"header": "bytes=0-5", "size": 10, "reference": "0-5"})
}

func malformedClass(h string) string {
	switch {
	case len(h) > 24:
		return "overflowing-number"
	case strings.Contains(h, ","):
		return "multiple-or-comma"
	case strings.Contains(h, "x"):
		return "trailing-garbage"
	case strings.Count(h, "-") > 1:
		return "extra-dash"
	}
	return "other"
}

// ---- Cache-Control argument forms (round 7: a lone double quote as the max-age argument) ----

func init() { vrun.Register("headers/cache-control", scenarioCacheControl) }

type ccParams struct {
	MaxLen int `json:"max_len"`
}

// evalCC runs everything the proxy does with a Cache-Control value (parse, storability, lifetime) under recover.
func evalCC(v string) (store bool, panicked string) {
	defer func() {
		if r := recover(); r != nil {
			panicked = fmt.Sprint(r)
		}
	}()
	hd := ParseHeaderDirective(http.Header{"Cache-Control": []string{v}})
	store = hd.ShouldCache(false)
	hd.ShouldCache(true)
	hd.GetExpiresOrDefault(false, 3600e9)
	hd.GetExpiresOrDefault(true, 3600e9)
	return store, ""
}

// scenarioCacheControl: every string over sigma up to max_len as the tail of each prefix. Oracles: no value makes
// the parser panic (C16); a value that opens with the directive no-store is never storable, whatever follows (C04:
// what could be understood of a malformed field still applies).
func scenarioCacheControl(c *vrun.Ctx) {
	var p ccParams
	c.Params(&p)
	prefixes := []string{"max-age=", "no-store, max-age=", "max-age", "Max-Age =", "s-maxage=", "no-cache=", "private=", ""}
	sigma := []byte{'"', '5', '0', 'x', ',', '=', ' ', '-'}
	i := 0
	var rec func(cur []byte)
	rec = func(cur []byte) {
		for _, pre := range prefixes {
			i++
			if !c.Mine(i) || c.Stop {
				continue
			}
			v := pre + string(cur)
			c.Case()
			store, pan := evalCC(v)
			switch {
			case pan != "":
				c.SetCase(fmt.Sprintf("Cache-Control: %q", v))
				cls := "other"
				if strings.Contains(pan, "slice bounds") {
					cls = "slice-bounds"
				} else if strings.Contains(pan, "index out of range") {
					cls = "index-out-of-range"
				}
				c.Violation("C16/cache-control-parser/panic/"+cls, fmt.Sprintf("Cache-Control value %q makes the parser panic: %s", v, pan), nil)
				c.Outcome("panic")
			case strings.HasPrefix(pre, "no-store,") && store:
				c.SetCase(fmt.Sprintf("Cache-Control: %q", v))
				c.Violation("C04/cache-control-parser/no-store-lost", fmt.Sprintf("Cache-Control value %q opens with no-store and is judged storable", v), nil)
				c.Outcome("no-store-lost")
			case store:
				c.Outcome("storable")
			default:
				c.Outcome("not-storable")
			}
		}
		if len(cur) == p.MaxLen {
			return
		}
		for _, b := range sigma {
			rec(append(cur, b))
		}
	}
	rec(nil)
}
