//go:build verif

package proxy

import (
	"context"
	"fmt"
	"strings"

	"reservoir/config"
	"reservoir/zzverif/vnet"
	"reservoir/zzverif/vrun"
	"reservoir/zzverif/vsched"
)

func init() { vrun.Register("proxy/config-workable", scenarioWorkable) }

// scenarioWorkable (C18): whether a suspect configuration is workable is decided
// operationally: if the update is accepted, a cache and proxy are started under the
// resulting configuration and must serve a request; a running cache must also survive
// the update (accepted or rejected).
func scenarioWorkable(c *vrun.Ctx) {
	type sus struct {
		name string
		path []string
		val  any
	}
	nest := func(path []string, v any) map[string]any {
		out := map[string]any{}
		m := out
		for _, p := range path[:len(path)-1] {
			n := map[string]any{}
			m[p] = n
			m = n
		}
		m[path[len(path)-1]] = v
		return out
	}
	cases := []sus{
		{"lock_shards=0", []string{"cache", "lock_shards"}, 0},
		{"lock_shards=-1", []string{"cache", "lock_shards"}, -1},
		{"lock_shards=1", []string{"cache", "lock_shards"}, 1},
		// more shard locks than can be allocated: NewProxy's make() panics ("len out of range")
		{"lock_shards=1e18", []string{"cache", "lock_shards"}, 1e18},
		{"lock_shards=4096", []string{"cache", "lock_shards"}, 4096},
		{"memory_budget_percent=0", []string{"cache", "memory", "memory_budget_percent"}, 0},
		{"max_cache_size=1B", []string{"cache", "max_cache_size"}, "1B"},
		{"cleanup_interval=1ns", []string{"cache", "cleanup_interval"}, "1ns"},
		{"cleanup_interval=-5s", []string{"cache", "cleanup_interval"}, "-5s"},
		{"cleanup_interval=0s", []string{"cache", "cleanup_interval"}, "0s"},
		{"file.dir-uncreatable", []string{"cache", "file", "dir"}, "/proc/self/nonexistent/cache"},
		{"default_max_age=-1s", []string{"proxy", "cache_policy", "default_max_age"}, "-1s"},
		{"max_backups=-1", []string{"logging", "max_backups"}, -1},
	}
	for i, sc := range cases {
		for _, backend := range []string{"memory", "file"} {
			if !c.Mine(i) {
				continue
			}
			c.Case()
			var problem, kind string
			accepted := false
			ex := vsched.Run(vsched.Config{Horizon: 300000}, func() {
				// (1) a running cache + janitor must survive the update attempt
				env := newEnv(envOpts{Backend: backend})
				_, err := config.UpdatePartialFromConfig(env.cfg, nest(sc.path, sc.val))
				vsched.Quiesce()
				accepted = err == nil
				env.origin.Put("/w", &vnet.Res{Name: "w", Size: 20, Headers: vnet.H{{"Cache-Control", "max-age=60"}}})
				if r, _ := env.do("GET", "/w", nil, ""); r.Status != 200 || len(r.Body) != 20 {
					problem, kind = fmt.Sprintf("after the update attempt (accepted=%v) the running proxy answers %d %s%s", accepted, r.Status, r.Err, r.Panic), "running-proxy-broken"
				}
				dir := env.dir
				env.close()
				vsched.Quiesce()
				if problem != "" {
					return
				}
				// a configuration without command-line overwrites, so that the updated value is the one in effect
				cfg := config.NewDefault()
				if _, err := config.UpdatePartialFromConfig(cfg, nest(sc.path, sc.val)); err != nil {
					accepted = false
					return
				}
				accepted = true
				vsched.Quiesce()
				cfg.Proxy.UpstreamDefaultHttps.Overwrite(false)
				if sc.path[len(sc.path)-1] != "dir" {
					cfg.Cache.File.Dir.Overwrite(dir)
				}
				// (2) the accepted configuration must start a cache + proxy that serves a request
				func() {
					defer func() {
						if r := recover(); r != nil {
							problem, kind = fmt.Sprintf("the configuration was accepted but starting a proxy under it panics: %v", r), "accepted-config-does-not-start"
						}
					}()
					ctx, cancel := context.WithCancel(context.Background())
					defer cancel()
					if backend == "file" {
						cfg.Cache.Type.Overwrite(config.CacheTypeFile)
					}
					p, err := NewProxy(cfg, nil, ctx)
					if err != nil {
						problem, kind = "the configuration was accepted but NewProxy fails: "+err.Error(), "accepted-config-does-not-start"
						return
					}
					o := vnet.NewOrigin()
					o.Install()
					o.Put("/w2", &vnet.Res{Name: "w2", Size: 20, Headers: vnet.H{{"Cache-Control", "max-age=60"}}})
					r := vnet.ServeRecorded(p, rawRequest("GET", "/w2", nil, ""), nil, nil)
					if r.Status != 200 || len(r.Body) != 20 || r.Panic != "" {
						problem, kind = fmt.Sprintf("the configuration was accepted but a proxy started under it answers %d %s %s", r.Status, r.Err, r.Panic), "accepted-config-does-not-serve"
					}
					p.Destroy()
					vsched.Quiesce()
				}()
			})
			if ex.Status != "complete" && problem == "" {
				problem, kind = "process abort: "+ex.Status+": "+ex.Detail+" "+firstLine(ex.PanicVal), "process-abort"
			}
			c.Outcome(fmt.Sprintf("%s accepted=%v", sc.name, accepted))
			if problem != "" {
				c.SetCase(sc.name + "/" + backend)
				c.Violation("C18/workable/"+kind+"/"+sc.name, problem+" | update "+sc.name+" backend "+backend, nil)
			}
		}
	}
	c.Sample(map[string]any{"update": "cache.lock_shards=0", "judged": "by starting a proxy under it if accepted"})
}

func firstLine(s string) string {
	if i := strings.IndexByte(s, '\n'); i >= 0 {
		return s[:i]
	}
	return s
}
