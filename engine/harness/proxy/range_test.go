//go:build verif

package proxy

import (
	"fmt"
	"math/big"
	"net/http"
	"regexp"
	"strconv"
	"strings"
	"time"

	"reservoir/zzverif/vnet"
	"reservoir/zzverif/vrun"
	"reservoir/zzverif/vtime"
)

func init() { vrun.Register("proxy/range", scenarioRangeE2E) }

var reWFRange = regexp.MustCompile(`^bytes=(?:(\d+)-(\d*)|-(\d+))$`)

// refRange: see harness/proxy/headers (duplicated: the packages cannot import each other's tests).
func refRange(h string, n int64) (first, last int64, ok bool, wf bool) {
	s := strings.NewReplacer(" ", "", "\t", "").Replace(h)
	m := reWFRange.FindStringSubmatch(s)
	if m == nil {
		return 0, 0, false, false
	}
	N := big.NewInt(n)
	if m[3] != "" {
		k, _ := new(big.Int).SetString(m[3], 10)
		if k.Sign() == 0 || n == 0 {
			return 0, 0, false, true
		}
		if k.Cmp(N) >= 0 {
			return 0, n - 1, true, true
		}
		return n - k.Int64(), n - 1, true, true
	}
	f, _ := new(big.Int).SetString(m[1], 10)
	if f.Cmp(N) >= 0 {
		return 0, 0, false, true
	}
	if m[2] == "" {
		return f.Int64(), n - 1, true, true
	}
	l, _ := new(big.Int).SetString(m[2], 10)
	if l.Cmp(f) < 0 {
		return 0, 0, false, false
	}
	if l.Cmp(N) >= 0 {
		return f.Int64(), n - 1, true, true
	}
	return f.Int64(), l.Int64(), true, true
}

var rangeReps = []string{
	"bytes=0-0", "bytes=0-4", "bytes=5-", "bytes=-5", "bytes=-1", "bytes= 3 - 7 ", "bytes=9-9", "bytes=0-35", "bytes=35-35",
	"bytes=", "bytes=5", "bytes=5 ", "bytes=-", "bytes=--5", "bytes=5-4", "bytes=0-5x", "bytes=0-5,7-9", "bytes=,", "bytes=0-,", "bytes=x",
	"bytes=36-40", "bytes=0-36", "bytes=0-99", "bytes=-0", "bytes=-99", "bytes=99-",
	"bytes=0-18446744073709551620", "bytes=18446744073709551616-18446744073709551620", "bytes=-18446744073709551617", "bytes=9223372036854775808-",
	twoRangeLines,
	"bytes0-5", "Bytes=0-5", "items=0-5", "=0-5", "", " ", "bytes =0-5", "bytes=0-5-", "bytes=0 5",
}

const twoRangeLines = "bytes=0-4 + second line bytes=10-14"

var reCR = regexp.MustCompile(`^bytes (\d+)-(\d+)/(\d+)$`)

func scenarioRangeE2E(c *vrun.Ctx) {
	var p struct {
		Backend string `json:"backend"`
	}
	c.Params(&p)
	caseNo := 0
	for _, retry := range []bool{false, true} {
		env := newEnv(envOpts{Backend: p.Backend, RetryInvalid: retry, Server: true, DefaultMaxAgeS: 3600})
		for _, size := range []int{1, 10, 36} {
			for _, ifr := range []string{"none", "etag-match", "etag-other", "lm-equal", "lm-earlier", "lm-later", "garbage", "etag-weakened", "weak-stored-same", "lone-quote", "empty-quotes", "weak-prefix-only"} {
				for _, rg := range rangeReps {
					caseNo++
					if !c.Mine(caseNo) {
						continue
					}
					if c.Expired() {
						env.close()
						return
					}
					c.Case()
					runRangeCase(c, env, retry, size, ifr, rg)
				}
			}
		}
		env.close()
	}
	// ---- a ranged GET for a key that is not stored goes upstream; the origin refuses it (416) and,
	// with retry_on_range_416, the proxy asks again without Range. Whatever comes back last is what
	// the client gets: status, headers and body of ONE origin response (C08), for every kind of
	// final answer, storable or not ----
	type fin struct {
		name   string
		status int
		cc     string
	}
	// 200-empty: storable, but its body is empty, which the file backend refuses to store (a cache-side
	// condition, C09): the client still gets the origin's 200
	fins := []fin{{"200-storable", 200, "max-age=600"}, {"200-no-store", 200, "no-store"}, {"404", 404, "no-store"}, {"503", 503, "no-store"}, {"204", 204, "no-store"}, {"200-empty", 200, "max-age=600"}}
	for _, retry := range []bool{false, true} {
		for _, ignore := range []bool{false, true} {
			env := newEnv(envOpts{Backend: p.Backend, Retry416: retry, IgnoreCC: ignore, Server: true, DefaultMaxAgeS: 3600})
			for _, f := range fins {
				caseNo++
				if !c.Mine(caseNo) {
					continue
				}
				c.Case()
				uri := env.uniq("u")
				name := "u" + strconv.Itoa(env.seq)
				res := &vnet.Res{Name: name, Size: 24, Status: f.status, NoConditionals: true, Headers: vnet.H{{"Cache-Control", f.cc}, {"X-Final", "token-" + f.name}, {"Content-Type", "application/x-final"}}}
				if f.status == 204 || f.name == "200-empty" {
					res.Size = 0
				}
				env.origin.Put(uri, res)
				env.origin.Custom = func(o *vnet.Origin, req *http.Request, rec *vnet.ReqRec) *http.Response {
					if req.Header.Get("Range") == "" || !strings.HasSuffix(req.URL.Path, uri) {
						return nil
					}
					h := http.Header{}
					h.Set("Content-Range", "bytes */24")
					h.Set("X-Refusal", "token-416")
					h.Set("Content-Type", "application/x-refusal")
					return vnet.MakeResponse(416, h, []byte("range not satisfiable"), false, -1)
				}
				desc := fmt.Sprintf("retry_on_range_416=%v ignore_cache_control=%v; cold key, Range: bytes=100-200 refused with 416, a request without Range is answered %s", retry, ignore, f.name)
				resp, reqs := env.do("GET", uri, vnet.H{{"Range", "bytes=100-200"}}, "")
				env.origin.Custom = nil
				c.Outcome(fmt.Sprintf("upstream-416 retry=%v final=%s -> %d (%d upstream)", retry, f.name, resp.Status, len(reqs)))
				if resp.Err != "" || resp.Dropped {
					c.SetCase(desc)
					c.Violation("C08/e2e/416-retry/no-response", "the client received no well-formed response: "+resp.Err+" | "+desc, nil)
					c.Violation("C07/e2e/416-retry/dropped-connection", "a Range request refused by the origin with 416 got no well-formed response (never a dropped connection): "+resp.Err+" | "+desc, nil)
					c.Violation("C16/e2e/range/416-retry/no-response", "the client received no well-formed response: "+resp.Err+" | "+desc, nil)
					continue
				}
				if len(reqs) == 0 {
					continue
				}
				// C09: the origin answered the retried request (the one without Range) successfully: that is the
				// answer the client is owed, also when the proxy could not store it (an empty body on the file
				// backend) and goes to the origin once more on the client's behalf
				for _, rq := range reqs {
					if rq.Header.Get("Range") == "" && rq.Status >= 200 && rq.Status < 300 && resp.Status >= 400 {
						c.SetCase(desc)
						c.Violation("C09/e2e/416-retry/good-answer-turned-into-error", fmt.Sprintf("the origin answered the retried request (without Range) with %d, the client received %d | %s", rq.Status, resp.Status, desc), nil)
						break
					}
				}
				last := reqs[len(reqs)-1]
				wantBody, wantTok, wantCT := "range not satisfiable", "", "application/x-refusal"
				if last.Status != 416 {
					wantTok, wantCT = "token-"+f.name, "application/x-final"
					wantBody = string(vnet.Body(name, 1, 24)) // the scripted origin sends the resource body with every status
					if f.status == 204 || f.name == "200-empty" {
						wantBody = ""
					}
				}
				if resp.Status != last.Status {
					c.SetCase(desc)
					if last.Status >= 200 && last.Status < 300 && resp.Status >= 400 {
						c.Violation("C09/e2e/416-retry/good-answer-turned-into-error", fmt.Sprintf("the origin answered the retried request with %d, the client received %d | %s", last.Status, resp.Status, desc), nil)
					}
					c.Violation("C08/e2e/416-retry/status-not-of-the-relayed-response", fmt.Sprintf("the last origin answer of the exchange was %d, the client received status %d (X-Final=%q, X-Refusal=%q, %d body bytes) | %s", last.Status, resp.Status, resp.Header.Get("X-Final"), resp.Header.Get("X-Refusal"), len(resp.Body), desc), nil)
					continue
				}
				if resp.Header.Get("X-Final") != wantTok || resp.Header.Get("Content-Type") != wantCT {
					c.SetCase(desc)
					c.Violation("C08/e2e/416-retry/headers-of-another-response", fmt.Sprintf("status %d delivered with X-Final=%q Content-Type=%q, expected %q / %q | %s", resp.Status, resp.Header.Get("X-Final"), resp.Header.Get("Content-Type"), wantTok, wantCT, desc), nil)
				}
				if resp.Body != wantBody {
					c.SetCase(desc)
					c.Violation("C08/e2e/416-retry/body-of-another-response", fmt.Sprintf("status %d delivered with body %q, expected %q | %s", resp.Status, resp.Body, wantBody, desc), nil)
				}
			}
			env.close()
		}
	}
	c.Res.Bounds["range_representatives"] = len(rangeReps)
}

func runRangeCase(c *vrun.Ctx, env *penv, retry bool, size int, ifr, rg string) {
	uri := env.uniq("g")
	name := "g" + strconv.Itoa(env.seq)
	lm := vtime.Peek().Add(-24 * time.Hour).Truncate(time.Second)
	etag := vnet.ETagFor(name, 1)
	if ifr == "weak-stored-same" {
		etag = "W/" + etag // the origin's validator is a weak one
	}
	env.origin.Put(uri, &vnet.Res{Name: name, Size: size, ETag: etag, LM: lm, Headers: vnet.H{{"Cache-Control", "max-age=600"}, {"Content-Type", "application/x-verif"}}})
	desc := fmt.Sprintf("retry_on_invalid_range=%v size=%d if-range=%s Range=%q", retry, size, ifr, rg)
	report := func(kind, msg string) {
		c.SetCase(desc)
		c.Violation("C07/e2e/"+kind, msg+" | "+desc, nil)
	}
	// store the representation
	if r, _ := env.do("GET", uri, nil, ""); r.Status != 200 || len(r.Body) != size {
		report("setup", fmt.Sprintf("plain GET failed: %d %s", r.Status, r.Err))
		return
	}
	hs := vnet.H{{"Range", rg}}
	if rg == twoRangeLines {
		// the same list as "bytes=0-4,10-14", sent as two field lines
		hs = vnet.H{{"Range", "bytes=0-4"}, {"Range", "bytes=10-14"}}
	}
	ifMatchExpected := true
	switch ifr {
	case "etag-match":
		hs = append(hs, [2]string{"If-Range", etag})
	case "etag-weakened":
		// the stored tag is strong; its weak form is another validator (If-Range compares strongly)
		hs = append(hs, [2]string{"If-Range", "W/" + etag})
		ifMatchExpected = false
	case "weak-stored-same":
		// If-Range compares strongly (RFC 9110 13.1.5 / 8.8.3.2): a weak tag matches nothing, not even itself
		hs = append(hs, [2]string{"If-Range", etag})
		ifMatchExpected = false
	case "lone-quote":
		hs = append(hs, [2]string{"If-Range", `"`}) // degenerate tags: whatever they are, they are not the stored validator
		ifMatchExpected = false
	case "empty-quotes":
		hs = append(hs, [2]string{"If-Range", `""`})
		ifMatchExpected = false
	case "weak-prefix-only":
		hs = append(hs, [2]string{"If-Range", `W/`})
		ifMatchExpected = false
	case "etag-other":
		hs = append(hs, [2]string{"If-Range", `"something-else"`})
		ifMatchExpected = false
	case "lm-equal":
		hs = append(hs, [2]string{"If-Range", httpDate(lm)})
	case "lm-earlier":
		hs = append(hs, [2]string{"If-Range", httpDate(lm.Add(-time.Hour))})
		ifMatchExpected = false
	case "lm-later":
		hs = append(hs, [2]string{"If-Range", httpDate(lm.Add(time.Hour))})
		ifMatchExpected = false
	case "garbage":
		hs = append(hs, [2]string{"If-Range", "not a date nor a tag"})
		ifMatchExpected = false
	}
	resp, rangeReqs := env.do("GET", uri, hs, "")
	full := string(vnet.Body(name, 1, size))
	rf, rl, rok, wf := refRange(rg, int64(size))
	c.Outcome(fmt.Sprintf("status=%d dropped=%v wf=%v sat=%v ifr=%s", resp.Status, resp.Dropped, wf, rok, ifr))
	if resp.Dropped || resp.Err != "" && resp.Status == 0 {
		cls := "dropped-connection"
		report(cls+"/"+rangeClass(rg, wf, rok), "the client received no well-formed response: "+resp.Err)
		c.Violation("C16/e2e/range/"+cls+"/"+rangeClass(rg, wf, rok), "the client received no well-formed response for "+desc+": "+resp.Err, nil)
		return
	}
	if resp.Err != "" {
		report("malformed-response", fmt.Sprintf("status %d but %s", resp.Status, resp.Err))
		return
	}
	switch resp.Status {
	case 206:
		m := reCR.FindStringSubmatch(resp.Header.Get("Content-Range"))
		if m == nil {
			report("206-bad-content-range", "Content-Range="+resp.Header.Get("Content-Range"))
			return
		}
		a, _ := strconv.Atoi(m[1])
		b, _ := strconv.Atoi(m[2])
		n, _ := strconv.Atoi(m[3])
		if n != size || a > b || b >= size {
			report("206-content-range-outside", fmt.Sprintf("Content-Range %s on a %d byte representation", m[0], size))
			return
		}
		if cl := resp.Header.Get("Content-Length"); cl != strconv.Itoa(b-a+1) || len(resp.Body) != b-a+1 {
			report("206-length-mismatch", fmt.Sprintf("Content-Range %s, Content-Length %s, %d body bytes", m[0], cl, len(resp.Body)))
		}
		if resp.Body != full[a:a+len(resp.Body)] && len(resp.Body) <= size-a {
			report("206-wrong-bytes", fmt.Sprintf("body %q is not bytes %d-%d", resp.Body, a, b))
		}
		if !wf {
			report("206-for-malformed/"+rangeClass(rg, wf, rok), fmt.Sprintf("served %s for a Range that is not a well-formed single range", m[0]))
		} else if !rok {
			report("206-for-unsatisfiable", fmt.Sprintf("served %s for an unsatisfiable Range", m[0]))
		} else if int64(a) != rf || int64(b) != rl {
			report("206-different-slice/"+rangeClass(rg, wf, rok), fmt.Sprintf("served %s, the requested range is %d-%d", m[0], rf, rl))
		}
		if !ifMatchExpected {
			report("206-despite-if-range-mismatch/"+ifr, "If-Range does not match the stored validator but a 206 was served")
		}
		// C03: labelled HIT exactly when served from a fresh stored entry without contacting the origin
		// (a Range request is not coalesced and normally does contact the origin before it is sliced)
		if xc := resp.Header.Get("X-Cache"); (xc == "HIT") != (len(rangeReqs) == 0) && (xc != "" || len(rangeReqs) == 0) {
			c.SetCase(desc)
			c.Violation("C03/e2e/range/206-hit-label-wrong", fmt.Sprintf("a 206 answered with %d origin request(s) carries X-Cache=%q Cache-Status=%q | %s", len(rangeReqs), xc, resp.Header.Get("Cache-Status"), desc), nil)
		}
	case 416:
		if cr := resp.Header.Get("Content-Range"); cr != "bytes */"+strconv.Itoa(size) {
			report("416-without-size", "Content-Range="+cr)
		}
		if !ifMatchExpected {
			// "an If-Range that does not match the stored validator yields the full 200": the Range
			// header is then to be ignored altogether, whatever it asks for
			report("416-despite-if-range-mismatch/"+ifr, "If-Range does not match the stored validator, so the Range header is void, yet the request was refused with 416")
		}
	case 200:
		if resp.Body != full {
			report("200-not-full-body", fmt.Sprintf("got %d bytes", len(resp.Body)))
		}
	default:
		report("unexpected-status/"+strconv.Itoa(resp.Status), "status "+strconv.Itoa(resp.Status)+" body "+strconv.Quote(resp.Body))
	}
	if env.seq%211 == 0 {
		c.Sample(map[string]any{"case": desc, "status": resp.Status, "content_range": resp.Header.Get("Content-Range")})
	}
	// Serving (or refusing) a range must leave the stored representation as it was: a later
	// plain GET is answered with the complete body and the origin's length and validators.
	after, _ := env.do("GET", uri, nil, "")
	switch {
	case after.Err != "" || after.Dropped || after.Status != 200 || after.Body != full:
		report("full-get-after-range-damaged", fmt.Sprintf("a plain GET after the range request got status %d, %d of %d body bytes, Content-Length %q %s", after.Status, len(after.Body), len(full), after.Header.Get("Content-Length"), after.Err))
		c.Violation("C01/e2e/full-get-after-range-damaged", fmt.Sprintf("a plain GET after a range request on the same stored entry got status %d, %d of %d body bytes (Content-Length %q) %s | %s", after.Status, len(after.Body), len(full), after.Header.Get("Content-Length"), after.Err, desc), nil)
	case after.Header.Get("Content-Range") != "":
		report("full-get-after-range-carries-content-range", "a plain GET after the range request carries Content-Range "+after.Header.Get("Content-Range"))
		c.Violation("C08/e2e/stored-headers-changed-by-range-request", "a plain GET after a range request carries a Content-Range the origin never sent: "+after.Header.Get("Content-Range")+" | "+desc, nil)
	case after.Header.Get("Etag") != etag || after.Header.Get("Content-Type") != "application/x-verif":
		report("full-get-after-range-headers-changed", fmt.Sprintf("ETag %q Content-Type %q", after.Header.Get("Etag"), after.Header.Get("Content-Type")))
	}
}

func rangeClass(rg string, wf, sat bool) string {
	switch {
	case len(rg) > 24:
		return "big-number"
	case wf && sat:
		return "valid"
	case wf:
		return "unsatisfiable"
	case strings.HasPrefix(rg, "bytes=") && !strings.ContainsAny(rg[6:], "0123456789"):
		return "no-digits"
	case strings.HasPrefix(rg, "bytes=") && !strings.Contains(rg[6:], "-"):
		return "no-dash"
	case strings.Contains(rg, ","):
		return "comma"
	}
	return "malformed"
}
