//go:build verif

package proxy

import (
	"fmt"
	"regexp"
	"strconv"
	"strings"
	"time"

	"reservoir/metrics"
	"reservoir/zzverif/vnet"
	"reservoir/zzverif/vrun"
	"reservoir/zzverif/vtime"
)

func init() { vrun.Register("proxy/fresh", scenarioFresh) }

type freshParams struct {
	Backend string `json:"backend"`
	Full    bool   `json:"full"`
}

// ccClass is one origin header class.
type ccClass struct {
	lines   []string // Cache-Control field lines
	expires string   // "" absent
	expKind string
}

// refDirectives implements appendix B1 on the header lines as sent.
type refCC struct {
	has, noStore, noCache, private bool
	maPresent                      bool
	ma                             int64 // valid only if maOK
	maOK                           bool
}

func parseRefCC(lines []string) refCC {
	var r refCC
	for _, l := range lines {
		r.has = true
		for _, d := range strings.Split(l, ",") {
			d = strings.ToLower(strings.TrimSpace(d))
			name, val, hasVal := strings.Cut(d, "=")
			switch name {
			case "no-store":
				r.noStore = true
			case "no-cache":
				r.noCache = true
			case "private":
				r.private = true
			case "max-age":
				if !hasVal {
					continue
				}
				r.maPresent = true
				if len(val) >= 2 && val[0] == '"' && val[len(val)-1] == '"' {
					val = val[1 : len(val)-1] // the quoted-string form of the argument is equivalent (RFC 9111 section 5.2)
				}
				if n, err := strconv.ParseInt(val, 10, 64); err == nil && n >= 0 && !r.maOK {
					r.ma, r.maOK = n, true
				} else if allDigits(val) && !r.maOK {
					// a delta-seconds value too large for an int64 is still a number: "forever"
					// (RFC 9111 section 1.2.2); any cap is acceptable for the lifetime (lifeFree)
					r.ma, r.maOK = 1<<62, true
				}
			}
		}
	}
	return r
}

func genClasses(full bool) []ccClass {
	ma := []string{"", "max-age=5", "max-age=0", "Max-Age=5", "max-age=x", "max-age=-1", "max-age=99999999999999999999", "MAX-AGE=7", `max-age="5"`, `max-age="0"`, `max-age="`}
	// the argument forms (no-cache="set-cookie": "may be reused except for that field") mark the response all the
	// same for a cache that does not implement field-level handling
	flags := []string{"", "no-store", "no-cache", "private", "public", "No-Store", "PRIVATE", "must-revalidate", `no-cache="set-cookie"`, `private="set-cookie"`, "no-store="}
	if !full {
		ma = []string{"", "max-age=5", "max-age=0", "Max-Age=5", "max-age=x", `max-age="5"`, `max-age="`}
		flags = []string{"", "no-store", "no-cache", "private", "public", "No-Store", `private="set-cookie"`}
	}
	now := vtime.Epoch
	exps := [][2]string{{"", "absent"}, {httpDate(now.Add(300 * time.Second)), "future"}, {httpDate(now.Add(-300 * time.Second)), "past"}, {"0", "zero"}, {"soon", "garbage"},
		{now.Add(300 * time.Second).UTC().Format(time.RFC850), "rfc850-future"}}
	var out []ccClass
	for _, m := range ma {
		for _, f := range flags {
			var variants [][]string
			switch {
			case m == "" && f == "":
				variants = [][]string{nil}
			case m == "":
				variants = [][]string{{f}}
			case f == "":
				variants = [][]string{{m}}
			default:
				variants = [][]string{{m + ", " + f}, {f + "," + m}, {m, f}, {f, m}}
			}
			for _, v := range variants {
				for _, e := range exps {
					out = append(out, ccClass{lines: v, expires: e[0], expKind: e[1]})
				}
			}
		}
	}
	return out
}

var reTTL = regexp.MustCompile(`ttl=(-?\d+)`)

func scenarioFresh(c *vrun.Ctx) {
	var p freshParams
	c.Params(&p)
	classes := genClasses(p.Full || c.Thorough())
	type policy struct{ ignore, force bool }
	policies := []policy{{false, false}, {true, false}, {false, true}, {true, true}}
	defaults := []int{3600, 10}
	methods := []string{"GET"}
	caseNo := 0
	for _, pol := range policies {
		for _, def := range defaults {
			env := newEnv(envOpts{Backend: p.Backend, IgnoreCC: pol.ignore, ForceDefault: pol.force, DefaultMaxAgeS: def})
			for _, cl := range classes {
				for _, method := range methods {
					for g1 := 0; g1 < 3; g1++ {
						for g2 := 0; g2 < 3; g2++ {
							caseNo++
							if caseNo%512 == 0 && c.Expired() {
								env.close()
								return
							}
							if !c.Mine(caseNo) {
								continue
							}
							c.Case()
							runFreshCase(c, env, pol.ignore, pol.force, def, cl, method, g1, g2)
						}
					}
				}
			}
			env.close()
		}
	}
	// ---- methods x statuses (C04): only a 200 answer to a GET may be reused ----
	for _, pol := range policies {
		env := newEnv(envOpts{Backend: p.Backend, IgnoreCC: pol.ignore, ForceDefault: pol.force, DefaultMaxAgeS: 3600})
		for _, method := range []string{"GET", "HEAD", "POST", "PUT", "DELETE", "OPTIONS", "PATCH"} {
			for _, status := range []int{200, 201, 203, 204, 206, 301, 404, 500} {
				caseNo++
				if !c.Mine(caseNo) {
					continue
				}
				c.Case()
				runMethodStatusCase(c, env, pol.ignore, pol.force, method, status)
			}
		}
		env.close()
	}
	// ---- a ranged GET refused with 416 and retried without Range (retry_on_range_416): the
	// storability decision must be taken on the response that is actually stored ----
	dirs := []string{"", "no-store", "private", "max-age=0", "max-age=600", "no-cache"}
	for _, ignore := range []bool{false, true} {
		env := newEnv(envOpts{Backend: p.Backend, IgnoreCC: ignore, Retry416: true, DefaultMaxAgeS: 3600})
		for _, d416 := range dirs {
			for _, d200 := range dirs {
				caseNo++
				if !c.Mine(caseNo) {
					continue
				}
				c.Case()
				uri := env.uniq("t")
				name := "t" + strconv.Itoa(env.seq)
				h := func(d string) vnet.H {
					if d == "" {
						return vnet.H{}
					}
					return vnet.H{{"Cache-Control", d}}
				}
				env.origin.Put(uri, &vnet.Res{Name: name, Size: 24, SupportsRange: true, NoConditionals: true, Headers: h(d200), Headers416: h(d416)})
				desc := fmt.Sprintf("ignore=%v; ranged GET answered 416 (Cache-Control %q), retried without Range and answered 200 (Cache-Control %q); then two plain GETs 1 s apart", ignore, d416, d200)
				r0, reqs0 := env.do("GET", uri, vnet.H{{"Range", "bytes=100-200"}}, "")
				if len(reqs0) != 2 || r0.Status != 200 {
					c.Outcome(fmt.Sprintf("416-retry: status %d upstream %d", r0.Status, len(reqs0)))
					continue // the retry did not take place as scripted; C19/C07 judge that
				}
				ref := parseRefCC([]string{d200})
				marked := d200 != "" && (ref.noStore || ref.noCache || ref.private || (ref.maOK && ref.ma == 0))
				pattern := ""
				for step := 1; step <= 2; step++ {
					vtime.Advance(time.Second)
					env.origin.Bump(uri)
					_, reqs := env.do("GET", uri, nil, "")
					contact := len(reqs) > 0
					if contact {
						pattern += "C"
					} else {
						pattern += "H"
					}
					if !contact && !ignore && marked {
						c.SetCase(desc)
						c.Violation("C04/fresh/store/reused-unstorable/after-416-retry", fmt.Sprintf("plain GET %d was answered from the store although the 200 that was stored is marked %q | %s", step, d200, desc), nil)
					}
					if contact && step == 1 && (ignore || (!marked && (ref.maOK && ref.ma > 0 || d200 == ""))) {
						c.SetCase(desc)
						c.Violation("C04/fresh/store/not-reused-while-fresh/after-416-retry", fmt.Sprintf("plain GET %d contacted the origin although the retried 200 (%q) is storable and was received a second ago | %s", step, d200, desc), nil)
					}
					if contact {
						break
					}
				}
				c.Outcome("416-retry:" + d416 + "/" + d200 + ":" + pattern)
			}
		}
		env.close()
	}
	// ---- one key whose origin answer changes category between requests (C04 "at any point of a
	// request history"): the decision is taken per response; nothing remembered about an earlier
	// answer for the key may keep a later storable answer out of the store, or an unstorable one in ----
	type kind struct {
		name   string
		status int
		cc     string
	}
	kinds := []kind{{"S:max-age=600", 200, "max-age=600"}, {"N:no-store", 200, "no-store"}, {"P:private", 200, "private"}, {"Z:max-age=0", 200, "max-age=0"}, {"E:503", 503, "max-age=600"}, {"F:404", 404, "max-age=600"}}
	for _, ignore := range []bool{false, true} {
		env := newEnv(envOpts{Backend: p.Backend, IgnoreCC: ignore, DefaultMaxAgeS: 3600})
		nk := len(kinds)
		for hi := 0; hi < nk*nk*nk*nk; hi++ {
			caseNo++
			if !c.Mine(caseNo) {
				continue
			}
			c.Case()
			uri := env.uniq("v")
			name := "v" + strconv.Itoa(env.seq)
			res := &vnet.Res{Name: name, Size: 24, NoConditionals: true}
			env.origin.Put(uri, res)
			var names []string
			stored := false
			storedV := 0
			pattern := ""
			x := hi
			for step := 0; step < 4; step++ {
				k := kinds[x%nk]
				x /= nk
				names = append(names, k.name)
				vtime.Advance(time.Second)
				if step > 0 {
					env.origin.Bump(uri)
				}
				res.Status, res.Headers = k.status, vnet.H{{"Cache-Control", k.cc}}
				resp, reqs := env.do("GET", uri, nil, "")
				contact := len(reqs) > 0
				desc := fmt.Sprintf("ignore=%v; origin answers of one URL, requests 1 s apart: %v", ignore, names)
				if stored {
					pattern += "H"
					if contact {
						c.SetCase(desc)
						c.Violation("C04/fresh/history/not-reused-while-fresh", fmt.Sprintf("request %d contacted the origin although a storable 200 (version %d) was stored %d s earlier | %s", step+1, storedV, 1, desc), nil)
						break
					}
					if cand, why := vnet.Identify([]byte(resp.Body), env.origin.Candidates()); why != "" || cand.V != storedV {
						c.SetCase(desc)
						c.Violation("C04/fresh/history/stored-body-not-served", fmt.Sprintf("request %d was answered from the store with %v %s, stored was version %d | %s", step+1, cand, why, storedV, desc), nil)
						break
					}
					continue
				}
				pattern += "C"
				if !contact {
					c.SetCase(desc)
					c.Violation("C04/fresh/history/reused-unstorable", fmt.Sprintf("request %d was answered without contacting the origin although nothing storable had been received | %s", step+1, desc), nil)
					break
				}
				if resp.Status != k.status {
					c.SetCase(desc)
					c.Violation("C04/fresh/history/wrong-status", fmt.Sprintf("request %d: origin answered %d, client received %d | %s", step+1, k.status, resp.Status, desc), nil)
					break
				}
				if k.status == 200 && (ignore || k.name[0] == 'S') {
					stored, storedV = true, res.Version
				}
			}
			c.Outcome(fmt.Sprintf("history ignore=%v %v %s", ignore, names, pattern))
		}
		env.close()
	}
	// ---- boundary numbers of max-age: every positive value, however large, means "fresh for that long":
	// stored, and reused one second and one hour later (C04: stored and reused while fresh) ----
	for _, ma := range []string{"1", "2147483647", "2147483648", "3000000000", "4294967295", "4294967296", "31536000000", "9223372036", "9223372037", "9223372036854775807"} {
		caseNo++
		if !c.Mine(caseNo) {
			continue
		}
		c.Case()
		env := newEnv(envOpts{Backend: p.Backend, DefaultMaxAgeS: 3600})
		uri := env.uniq("b")
		env.origin.Put(uri, &vnet.Res{Name: "b" + strconv.Itoa(env.seq), Size: 24, NoConditionals: true, Headers: vnet.H{{"Cache-Control", "max-age=" + ma}}})
		desc := "Cache-Control: max-age=" + ma + "; requests at 0 s, 1 s (and 1 h unless max-age is 1)"
		env.do("GET", uri, nil, "")
		pattern := ""
		for i, gap := range []time.Duration{time.Second, time.Hour} {
			if ma == "1" {
				break
			}
			vtime.Advance(gap)
			env.origin.Bump(uri)
			_, reqs := env.do("GET", uri, nil, "")
			if len(reqs) > 0 {
				pattern += "C"
				c.SetCase(desc)
				c.Violation("C04/fresh/store/not-reused-while-fresh/max-age-boundary-number", fmt.Sprintf("request %d contacted the origin %v after a 200 with max-age=%s was received | %s", i+2, gap, ma, desc), nil)
				break
			}
			pattern += "H"
		}
		c.Outcome("max-age=" + ma + ":" + pattern)
		env.close()
	}
	// ---- the origin's clock runs ahead of the proxy's (its Date lies in the proxy's future), or the
	// response has no Date at all: Age and ttl of later hits still follow the time the entry was
	// stored (C03: "its Age and ttl are consistent with the time it was stored") ----
	for _, skew := range []time.Duration{0, 5 * time.Second, 300 * time.Second, 2 * time.Hour} {
		for _, noDate := range []bool{false, true} {
			if noDate && skew != 0 {
				continue
			}
			caseNo++
			if !c.Mine(caseNo) {
				continue
			}
			c.Case()
			env := newEnv(envOpts{Backend: p.Backend, DefaultMaxAgeS: 3600})
			uri := env.uniq("k")
			env.origin.Put(uri, &vnet.Res{Name: "k" + strconv.Itoa(env.seq), Size: 24, DateSkew: skew, NoDate: noDate, Headers: vnet.H{{"Cache-Control", "max-age=600"}}})
			desc := fmt.Sprintf("origin Date %v ahead of the proxy's clock (no Date: %v), max-age=600, hits 3 s, 100 s and 599 s after storing", skew, noDate)
			env.do("GET", uri, nil, "")
			storedAt := vtime.Peek()
			for _, at := range []time.Duration{3 * time.Second, 100 * time.Second, 599 * time.Second} {
				vtime.Advance(storedAt.Add(at).Sub(vtime.Peek()))
				resp, reqs := env.do("GET", uri, nil, "")
				c.Outcome(fmt.Sprintf("skew=%v nodate=%v at=%v contact=%v Age=%s", skew, noDate, at, len(reqs) > 0, resp.Header.Get("Age")))
				if len(reqs) > 0 {
					c.SetCase(desc)
					c.Violation("C03/fresh/skew/contact-while-fresh", fmt.Sprintf("the origin was contacted %v after storing a response with max-age=600 | %s", at, desc), nil)
					break
				}
				a, err := strconv.Atoi(resp.Header.Get("Age"))
				if err != nil || time.Duration(a)*time.Second < at-time.Second || time.Duration(a)*time.Second > at+time.Second {
					c.SetCase(desc)
					c.Violation("C03/fresh/skew/age", fmt.Sprintf("Age=%q on a hit %v after the entry was stored | %s", resp.Header.Get("Age"), at, desc), nil)
				}
				if m := reTTL.FindStringSubmatch(resp.Header.Get("Cache-Status")); m != nil {
					ttl, _ := strconv.Atoi(m[1])
					left := 600*time.Second - at
					if time.Duration(ttl)*time.Second < left-time.Second || time.Duration(ttl)*time.Second > left+time.Second {
						c.SetCase(desc)
						c.Violation("C03/fresh/skew/ttl", fmt.Sprintf("ttl=%d on a hit %v after storing, %v of the lifetime is left | %s", ttl, at, left, desc), nil)
					}
				}
			}
			env.close()
		}
	}
	// ---- the origin's Date lies in the proxy's past (a CDN that keeps the original Date, a slow origin
	// clock) and the lifetime comes from Expires: it ends at the Expires date, not at "stored + (Expires - Date)" ----
	for _, back := range []time.Duration{time.Hour, 2 * time.Hour} {
		for _, expIn := range []time.Duration{-time.Hour, 8 * time.Second} {
			caseNo++
			if !c.Mine(caseNo) {
				continue
			}
			c.Case()
			env := newEnv(envOpts{Backend: p.Backend, DefaultMaxAgeS: 3600})
			uri := env.uniq("d")
			t0 := vtime.Peek()
			env.origin.Put(uri, &vnet.Res{Name: "d" + strconv.Itoa(env.seq), Size: 24, DateSkew: -back, NoConditionals: true, Headers: vnet.H{{"Expires", httpDate(t0.Add(expIn))}}})
			desc := fmt.Sprintf("origin Date %v behind the proxy's clock, Expires %v from now, no Cache-Control", back, expIn)
			env.do("GET", uri, nil, "")
			at := 3 * time.Second
			if expIn > 0 {
				at = expIn + 3*time.Second
			}
			vtime.Advance(at)
			env.origin.Bump(uri)
			resp, reqs := env.do("GET", uri, nil, "")
			c.Outcome(fmt.Sprintf("date-behind=%v expires=%v contact=%v %s", back, expIn, len(reqs) > 0, resp.Header.Get("X-Cache")))
			if len(reqs) == 0 {
				c.SetCase(desc)
				c.Violation("C03/fresh/skew/served-after-expires-date", fmt.Sprintf("a request %v after storing (past the Expires date) was served without contacting the origin (X-Cache=%q Cache-Status=%q) | %s", at, resp.Header.Get("X-Cache"), resp.Header.Get("Cache-Status"), desc), nil)
			}
			env.close()
		}
	}
	c.Res.Bounds["header_classes"] = len(classes)
	c.Res.Bounds["policies"] = len(policies) * len(defaults)
	c.Res.Bounds["gap_patterns"] = 9
}

func runFreshCase(c *vrun.Ctx, env *penv, ignore, force bool, def int, cl ccClass, method string, g1, g2 int) {
	uri := env.uniq("f")
	var hs vnet.H
	for _, l := range cl.lines {
		hs = append(hs, [2]string{"Cache-Control", l})
	}
	storedAtForExpires := vtime.Peek()
	expVal := cl.expires
	// Expires values were generated relative to the epoch; re-anchor them to "now".
	switch cl.expKind {
	case "future":
		expVal = httpDate(storedAtForExpires.Add(300 * time.Second))
	case "past":
		expVal = httpDate(storedAtForExpires.Add(-300 * time.Second))
	case "rfc850-future":
		expVal = storedAtForExpires.Add(300 * time.Second).UTC().Format(time.RFC850)
	}
	if expVal != "" {
		hs = append(hs, [2]string{"Expires", expVal})
	}
	res := env.origin.Put(uri, &vnet.Res{Name: "r" + strconv.Itoa(env.seq), Size: 24, ETag: vnet.ETagFor("r"+strconv.Itoa(env.seq), 1), Headers: hs})

	// ---- reference (appendix B1) ----
	ref := parseRefCC(cl.lines)
	expPresent := cl.expires != ""
	var expTime time.Time
	expParses := false
	if cl.expKind == "future" || cl.expKind == "rfc850-future" {
		expTime, expParses = storedAtForExpires.Add(300*time.Second), true
	} else if cl.expKind == "past" {
		expTime, expParses = storedAtForExpires.Add(-300*time.Second), true
	}
	expiredByDate := expPresent && (!expParses || !expTime.After(storedAtForExpires))
	maPositive := ref.maOK && ref.ma > 0
	marked := ref.noStore || ref.noCache || ref.private || (ref.maOK && ref.ma == 0) || (!maPositive && expiredByDate)
	mustNot := !ignore && marked
	must := ignore || (!marked && (maPositive || (!ref.has && !expiredByDate)))
	// lifetime
	var life time.Duration
	lifeFree := false
	switch {
	case force:
		life = time.Duration(def) * time.Second
	case maPositive:
		life = time.Duration(ref.ma) * time.Second
		if ref.ma > 1<<31 {
			lifeFree = true // numerically overflowing max-age: any cap is acceptable
		}
	case expParses:
		life = expTime.Sub(storedAtForExpires)
	case expPresent:
		life = 0
	default:
		life = time.Duration(def) * time.Second
	}
	if ignore && ref.maOK && ref.ma == 0 {
		lifeFree = true
	}
	if ref.maPresent && !ref.maOK {
		lifeFree = true // malformed max-age: statement does not fix the lifetime
	}
	if life < 0 {
		life = 0
	}
	gaps := []time.Duration{time.Second, life - time.Second, life + time.Second}
	for i := range gaps {
		if gaps[i] < time.Second {
			gaps[i] = time.Second
		}
		if gaps[i] > 48*time.Hour {
			gaps[i] = 48 * time.Hour
		}
	}
	desc := fmt.Sprintf("ignore=%v force=%v default=%ds cache-control=%q expires=%s(%s) gaps=%v,%v", ignore, force, def, cl.lines, cl.expKind, expVal, gaps[g1], gaps[g2])
	report := func(kind, msg string) {
		c.SetCase(desc)
		prop := "C03"
		if strings.HasPrefix(kind, "store/") {
			prop = "C04"
		}
		c.Violation(prop+"/fresh/"+kind+"/"+classKey(cl, ignore, force), msg+" | "+desc, nil)
	}

	var storedAt time.Time
	stored := false
	outcome := ""
	for step, gap := range []time.Duration{0, gaps[g1], gaps[g2]} {
		if step > 0 {
			vtime.Advance(gap)
			env.origin.Bump(uri)
			// a live origin sends dates relative to the moment it answers: re-anchor Expires
			for i := range res.Headers {
				if res.Headers[i][0] != "Expires" {
					continue
				}
				switch cl.expKind {
				case "future":
					res.Headers[i][1] = httpDate(vtime.Peek().Add(300 * time.Second))
				case "past":
					res.Headers[i][1] = httpDate(vtime.Peek().Add(-300 * time.Second))
				case "rfc850-future":
					res.Headers[i][1] = vtime.Peek().Add(300 * time.Second).UTC().Format(time.RFC850)
				}
			}
		}
		now := vtime.Peek()
		resp, reqs := env.do(method, uri, nil, "")
		contact := len(reqs) > 0
		if resp.Err != "" || resp.Status != 200 {
			report("bad-response", fmt.Sprintf("step %d: status %d err %q", step, resp.Status, resp.Err))
			return
		}
		cand, why := vnet.Identify([]byte(resp.Body), env.origin.Candidates())
		if why != "" {
			report("bad-body", "step "+strconv.Itoa(step)+": "+why)
			return
		}
		xc := resp.Header.Get("X-Cache")
		cs := resp.Header.Get("Cache-Status")
		age := now.Sub(storedAt)
		if !contact {
			outcome += "H"
			// served from the store without asking the origin
			if mustNot {
				report("store/reused-unstorable", fmt.Sprintf("step %d served version %d from the store without contacting the origin although the response was marked not storable", step, cand.V))
			}
			if stored && !lifeFree && age > life {
				report("served-stale", fmt.Sprintf("step %d served from the store %v after it was stored, lifetime %v", step, age, life))
			}
			if cand.V == res.Version && step > 0 {
				report("bad-body", "impossible: current version without contact")
			}
			if xc != "HIT" {
				report("label", fmt.Sprintf("step %d served without origin contact but X-Cache=%q", step, xc))
			}
			if !strings.Contains(cs, "hit") || strings.Contains(cs, "revalidated") || strings.Contains(cs, "fwd=") {
				report("label", fmt.Sprintf("step %d served without origin contact but Cache-Status=%q", step, cs))
			}
			if a, err := strconv.Atoi(resp.Header.Get("Age")); err != nil || time.Duration(a)*time.Second < age-time.Second || time.Duration(a)*time.Second > age+time.Second {
				report("age", fmt.Sprintf("step %d: Age=%q but the entry was stored %v ago", step, resp.Header.Get("Age"), age))
			}
			if m := reTTL.FindStringSubmatch(cs); m == nil {
				report("ttl", fmt.Sprintf("step %d: no ttl in Cache-Status %q", step, cs))
			} else if !lifeFree {
				ttl, _ := strconv.Atoi(m[1])
				left := life - age
				if time.Duration(ttl)*time.Second < left-time.Second || time.Duration(ttl)*time.Second > left+time.Second {
					report("ttl", fmt.Sprintf("step %d: ttl=%d but %v of the lifetime %v is left", step, ttl, left, life))
				}
			}
		} else {
			outcome += "C"
			if xc == "HIT" {
				report("label", fmt.Sprintf("step %d contacted the origin but is labelled X-Cache=HIT", step))
			}
			if cand.V != res.Version {
				report("store/stale-after-contact", fmt.Sprintf("step %d contacted the origin (now at version %d) but served version %d", step, res.Version, cand.V))
			}
			if stored && must && !lifeFree && age < life {
				report("store/not-reused-while-fresh", fmt.Sprintf("step %d contacted the origin only %v after storing a response with lifetime %v", step, age, life))
			}
			storedAt, stored = now, true
		}
	}
	c.Outcome(fmt.Sprintf("%s must=%v mustNot=%v", outcome, must, mustNot))
	if env.seq%997 == 0 {
		c.Sample(map[string]any{"case": desc, "pattern": outcome})
	}
}

// classKey names the header class coarsely (directive kinds, not values) so that one
// defect gives a handful of violation classes.
func classKey(cl ccClass, ignore, force bool) string {
	var kinds []string
	for _, l := range cl.lines {
		for _, d := range strings.Split(l, ",") {
			d = strings.TrimSpace(d)
			name, val, _ := strings.Cut(d, "=")
			k := name
			if name != strings.ToLower(name) {
				k = "CASE:" + strings.ToLower(name)
			}
			if strings.ToLower(name) == "max-age" {
				switch {
				case val == "0":
					k += "=0"
				case val == "5" || val == "7":
					k += "=N"
				default:
					k += "=bad"
				}
			}
			kinds = append(kinds, k)
		}
	}
	sep := ","
	if len(cl.lines) > 1 {
		sep = "||"
	}
	return fmt.Sprintf("cc[%s]/exp=%s/ignore=%v/force=%v", strings.Join(kinds, sep), cl.expKind, ignore, force)
}

func runMethodStatusCase(c *vrun.Ctx, env *penv, ignore, force bool, method string, status int) {
	uri := env.uniq("m")
	name := "m" + strconv.Itoa(env.seq)
	hs := vnet.H{{"Cache-Control", "max-age=600"}}
	res := &vnet.Res{Name: name, Size: 24, Status: status, Headers: hs, NoConditionals: true}
	if status == 301 {
		hs = append(hs, [2]string{"Location", "http://" + originHost + uri + "-target"})
		res.Headers = hs
		env.origin.Put(uri+"-target", &vnet.Res{Name: name + "t", Size: 24, Headers: vnet.H{{"Cache-Control", "max-age=600"}}})
	}
	if status == 204 {
		res.Size = 0
	}
	env.origin.Put(uri, res)
	desc := fmt.Sprintf("ignore=%v force=%v method=%s origin-status=%d, three requests 1 s apart", ignore, force, method, status)
	pattern := ""
	for step := 0; step < 3; step++ {
		if step > 0 {
			vtime.Advance(time.Second)
			env.origin.Bump(uri)
		}
		body := ""
		if method == "POST" || method == "PUT" || method == "PATCH" {
			body = "payload"
		}
		entriesBefore := metrics.Global.Cache.CacheEntries.Get()
		resp, reqs := env.do(method, uri, nil, body)
		if grew := metrics.Global.Cache.CacheEntries.Get() - entriesBefore; grew > 0 && !(method == "GET" && status == 200) {
			c.SetCase(desc)
			c.Violation("C04/fresh/store/stored-non-200-or-non-GET/"+method+"/"+strconv.Itoa(status), fmt.Sprintf("step %d: the answer to %s (status %d) was put into the store (entries +%d, Cache-Status %q): only 200 answers to GET are storable | %s", step, method, status, grew, resp.Header.Get("Cache-Status"), desc), nil)
			return
		}
		contact := len(reqs) > 0
		if contact {
			pattern += "C"
		} else {
			pattern += "H"
		}
		if resp.Err != "" && method != "HEAD" {
			c.SetCase(desc)
			c.Violation("C16/fresh/method-status/bad-response/"+method+"/"+strconv.Itoa(status), fmt.Sprintf("step %d: %s (status %d) | %s", step, resp.Err, resp.Status, desc), nil)
			return
		}
		if !contact && !(method == "GET" && status == 200) {
			c.SetCase(desc)
			c.Violation("C04/fresh/store/reused-non-200-or-non-GET/"+method+"/"+strconv.Itoa(status), fmt.Sprintf("step %d was answered from the store without contacting the origin | %s", step, desc), nil)
		}
		if contact && method == "GET" && status == 200 && step > 0 {
			c.SetCase(desc)
			c.Violation("C04/fresh/store/not-reused-while-fresh/plain-200-GET", fmt.Sprintf("step %d contacted the origin although a 200 GET response with max-age=600 was stored a second earlier | %s", step, desc), nil)
		}
	}
	c.Outcome(fmt.Sprintf("method-status %s %d %s", method, status, pattern))
}

func allDigits(s string) bool {
	if s == "" {
		return false
	}
	for _, c := range s {
		if c < '0' || c > '9' {
			return false
		}
	}
	return true
}
