//go:build verif

package proxy

import (
	"fmt"
	"net/http"
	"strings"

	"reservoir/zzverif/vnet"
	"reservoir/zzverif/vrun"
	"reservoir/zzverif/vsched"
)

func init() { vrun.Register("proxy/self-request", scenarioSelfRequest) }

const selfHost = "proxy.self:9999"

// scenarioSelfRequest (C16: "no byte sequence a client can send ... leaves the client without a
// well-formed HTTP response"; C14: "every proxied request completes"): a request whose target is the
// proxy's own listening address. The network then delivers the proxy's upstream request to the proxy
// itself, which is what the scripted origin does here for the host proxy.self:9999. Whatever the
// proxy answers (an error is the natural answer), it has to answer, and it has to be the proxy that
// ends the loop: the network model only carries the request round a few times to see whether it does.
func scenarioSelfRequest(c *vrun.Ctx) {
	for _, be := range []string{"memory", "file"} {
		for _, method := range []string{"GET", "HEAD", "POST"} {
			for _, form := range []string{"absolute-target", "host-header"} {
				c.Case()
				desc := fmt.Sprintf("%s %s %s", be, method, form)
				var resp *vnet.Resp
				rounds := 0
				ex := vsched.Run(vsched.Config{Horizon: 400000}, func() {
					env := newEnv(envOpts{Backend: be})
					defer env.close()
					env.origin.Custom = func(o *vnet.Origin, req *http.Request, rec *vnet.ReqRec) *http.Response {
						if req.URL.Host != selfHost {
							return nil
						}
						rounds++
						if rounds > 4 {
							h := http.Header{}
							h.Set("Content-Type", "text/plain")
							return vnet.MakeResponse(599, h, []byte("the network gave up carrying the request round"), false, -1)
						}
						// the proxy's own request arrives at the proxy
						var b strings.Builder
						b.WriteString(req.Method + " http://" + selfHost + req.URL.RequestURI() + " HTTP/1.1\r\nHost: " + selfHost + "\r\n")
						for k, vs := range req.Header {
							for _, v := range vs {
								b.WriteString(k + ": " + v + "\r\n")
							}
						}
						b.WriteString("\r\n")
						inner := vnet.ServeRecorded(env.p, b.String(), nil, nil)
						h := http.Header{}
						for k, vs := range inner.Header {
							for _, v := range vs {
								h.Add(k, v)
							}
						}
						status := inner.Status
						if status == 0 {
							status = 502
						}
						return vnet.MakeResponse(status, h, []byte(inner.Body), false, -1)
					}
					raw := method + " http://" + selfHost + "/loop HTTP/1.1\r\nHost: " + selfHost + "\r\nUser-Agent: vf\r\n\r\n"
					if form == "host-header" {
						raw = method + " /loop HTTP/1.1\r\nHost: " + selfHost + "\r\nUser-Agent: vf\r\n\r\n"
					}
					resp = vnet.ServeRecorded(env.p, raw, nil, nil)
				})
				status := 0
				if resp != nil {
					status = resp.Status
				}
				c.Outcome(fmt.Sprintf("%s: %s status=%d rounds=%d", desc, ex.Status, status, rounds))
				if ex.Status != "complete" {
					c.SetCase(desc)
					c.Violation("C16/self-request/never-answered/"+method, fmt.Sprintf("a %s whose target is the proxy's own address is never answered: %s %s (the proxy's upstream request came back to it %d times)", method, ex.Status, ex.Detail, rounds), nil)
					c.Violation("C14/self-request/never-completes/"+method, fmt.Sprintf("a %s whose target is the proxy's own address never completes: %s %s", method, ex.Status, ex.Detail), nil)
					continue
				}
				if resp == nil || resp.Dropped || resp.Status == 0 {
					c.SetCase(desc)
					c.Violation("C16/self-request/no-response/"+method, fmt.Sprintf("a %s whose target is the proxy's own address got no well-formed response", method), nil)
					continue
				}
				if rounds > 4 {
					c.SetCase(desc)
					c.Violation("C16/self-request/loop-not-ended-by-the-proxy/"+method, fmt.Sprintf("a %s whose target is the proxy's own address went round %d times and only ended because the network model stopped carrying it; in a real network it goes on until connections or memory run out and the client is never answered", method, rounds), nil)
					c.Violation("C14/self-request/never-completes/"+method, fmt.Sprintf("a %s whose target is the proxy's own address goes round without end (%d times before the network model stopped it)", method, rounds), nil)
				}
			}
		}
	}
}
