//go:build verif

package proxy

import (
	"context"
	"fmt"
	"net/http"
	"reflect"
	"strconv"
	"strings"
	"time"

	"reservoir/cache"
	"reservoir/metrics"
	"reservoir/utils/bytesize"
	"reservoir/utils/duration"
	"reservoir/zzverif/vnet"
	"reservoir/zzverif/vrun"
	"reservoir/zzverif/vsched"
	"reservoir/zzverif/vtime"
)

func init() { vrun.Register("proxy/sched", scenarioProxySched) }

type psched struct {
	Name     string `json:"name"`
	Backend  string `json:"backend"`
	Clients  int    `json:"clients"`
	Start    string `json:"start"`     // cold | fresh | stale-304 | stale-200
	Outcome  string `json:"outcome"`   // cacheable | no-store | status-500
	Cancel   int    `json:"cancel"`    // 0 none; i>0: a thread cancels client i's context at any point
	Evictor  string `json:"evictor"`   // "" | delete | tick
	Slow     bool   `json:"slow"`      // clients read slowly (yield per written chunk)
	AdvanceS int    `json:"advance_s"` // a thread advances the clock by that many seconds at any point
	TickS    int    `json:"tick_s"`    // cleanup interval in seconds; a thread lets one interval pass (janitor cycle) at any point
	LimitTo  int64  `json:"limit_to"`  // a thread changes max_cache_size to this value at any point (config-change event)
	// Overwrite "range-get": a further client sends a Range request for the same URL; the origin
	// ignores Range and answers 200 with a NEW version (other size, other ETag), which the proxy
	// stores under the same key outside any coalesced flight
	Overwrite string `json:"overwrite"`
	// Policy "force-1s": a thread switches force_default_max_age on with default_max_age=1s at any point
	// of the exchange. If the switch was complete before the origin answered, the response is stored
	// under the new policy: a request two seconds later must ask the origin again (C03).
	Policy string `json:"policy"`
	Prop   string `json:"prop"`
}

var demotedAtomics map[uintptr]bool

func proxyIsPoint(p uintptr) bool { return !demotedAtomics[p] }

// demote: metric counters are write-only and the policy switches are read-only in these
// scenarios, so their atomics commute with everything and need not be scheduling points.
func refreshProxyDemoted(cfg any) {
	demotedAtomics = map[uintptr]bool{}
	var walk func(v reflect.Value)
	walk = func(v reflect.Value) {
		switch v.Kind() {
		case reflect.Pointer:
			if !v.IsNil() {
				walk(v.Elem())
			}
		case reflect.Struct:
			if strings.HasPrefix(v.Type().String(), "atomics.") {
				if v.NumField() > 0 && v.Field(0).Kind() == reflect.Pointer {
					demotedAtomics[v.Field(0).Pointer()] = true
				}
				return
			}
			for i := 0; i < v.NumField(); i++ {
				walk(v.Field(i))
			}
		}
	}
	walk(reflect.ValueOf(metrics.Global))
	walk(reflect.ValueOf(cfg))
}

type clientResult struct {
	resp     *vnet.Resp
	canceled bool
}

func scenarioProxySched(c *vrun.Ctx) {
	var ps []psched
	c.Params(&ps)
	for _, p := range ps {
		p := p
		var results []clientResult
		var originLog []vnet.ReqRec
		var cands []vnet.Candidate
		var version int
		var preLog int
		var evicted bool
		var evictedAt int
		var overwriter *vnet.Resp
		var originAnswered, policyDone, laterContacts int
		body := func() {
			overwriter = nil
			originAnswered, policyDone, laterContacts = 0, 0, -1
			vtime.Reset()
			env := newEnv(envOpts{Backend: p.Backend, DefaultMaxAgeS: 1000, CleanupIntervalS: p.TickS})
			refreshProxyDemoted(env.cfg)
			uri := "/r"
			res := &vnet.Res{Name: "r", Size: 40, ETag: vnet.ETagFor("r", 1), Headers: vnet.H{{"Cache-Control", "max-age=100"}}}
			switch p.Outcome {
			case "no-store":
				res.Headers = vnet.H{{"Cache-Control", "no-store"}}
			case "status-500":
				res.Status = 500
			case "empty-body":
				res.Size = 0 // a cacheable 200 whose body is empty
			}
			env.origin.Put(uri, res)
			raw := rawRequest("GET", uri, nil, "")
			// start state
			if strings.HasPrefix(p.Start, "after-") {
				// the key has a history: an earlier request got an answer that could not be stored (the origin
				// was failing, or the resource was marked no-store at the time). Nothing is stored, the resource
				// is cacheable now: the concurrent phase is a cold one like any other.
				savedHeaders, savedStatus := res.Headers, res.Status
				if p.Start == "after-no-store" {
					res.Headers = vnet.H{{"Cache-Control", "no-store"}}
				} else {
					res.Status = 503
				}
				vnet.ServeRecorded(env.p, raw, nil, nil)
				res.Headers, res.Status = savedHeaders, savedStatus
			} else if p.Start != "cold" {
				vnet.ServeRecorded(env.p, raw, nil, nil)
				switch p.Start {
				case "stale-304":
					vtime.Advance(101 * time.Second)
				case "stale-200":
					vtime.Advance(101 * time.Second)
					env.origin.Bump(uri)
				}
			}
			if p.Outcome == "transient-503" {
				res.ForceOnce = 503 // only the first upstream request of the concurrent phase fails
			}
			preLog = len(env.origin.Log)
			// the first origin request of the concurrent phase is held until every other thread has
			// run as far as it can, so that the clients really are in flight at the same time
			gated := false
			env.origin.Gate = func(o *vnet.Origin, rec *vnet.ReqRec) {
				if !gated {
					gated = true
					vsched.Gate("first-origin-answer")
					originAnswered = vsched.Stamp()
				}
			}
			if p.Overwrite == "range-get" {
				env.origin.Custom = func(o *vnet.Origin, req *http.Request, rec *vnet.ReqRec) *http.Response {
					if req.Header.Get("Range") != "" {
						res.Size += 15
						o.Bump(uri)
					}
					return nil
				}
			}
			results = make([]clientResult, p.Clients)
			cancels := make([]context.CancelFunc, p.Clients)
			ctxs := make([]context.Context, p.Clients)
			for i := 0; i < p.Clients; i++ {
				ctxs[i], cancels[i] = context.WithCancel(context.Background())
			}
			for i := 0; i < p.Clients; i++ {
				i := i
				vsched.GoHarness("client"+strconv.Itoa(i+1), func() {
					rec := vnet.NewRecorder("GET")
					rec.SlowReader = p.Slow
					results[i].resp = vnet.ServeRecorded(env.p, raw, ctxs[i], rec)
				})
			}
			if p.Overwrite == "range-get" {
				vsched.GoHarness("range-client", func() {
					overwriter = vnet.ServeRecorded(env.p, rawRequest("GET", uri, vnet.H{{"Range", "bytes=0-9"}}, ""), nil, vnet.NewRecorder("GET"))
				})
			}
			if p.Cancel > 0 {
				vsched.GoHarness("disconnect"+strconv.Itoa(p.Cancel), func() {
					cancels[p.Cancel-1]()
					results[p.Cancel-1].canceled = true
				})
			}
			if p.TickS > 0 {
				vsched.GoHarness("clock-tick", func() { vtime.Advance(time.Duration(p.TickS) * time.Second) })
			}
			if p.LimitTo > 0 {
				vsched.GoHarness("limit-change", func() { env.cfg.Cache.MaxCacheSize.Overwrite(bytesize.ByteSize(p.LimitTo)) })
			}
			if p.Policy == "force-1s" {
				vsched.GoHarness("policy-change", func() {
					env.cfg.Proxy.CachePolicy.DefaultMaxAge.Overwrite(duration.Duration(time.Second))
					env.cfg.Proxy.CachePolicy.ForceDefaultMaxAge.Overwrite(true)
					policyDone = vsched.Stamp()
				})
			}
			if p.AdvanceS > 0 {
				vsched.GoHarness("clock", func() { vtime.Advance(time.Duration(p.AdvanceS) * time.Second) })
			}
			evicted, evictedAt = false, 0
			switch p.Evictor {
			case "delete":
				vsched.GoHarness("evictor", func() {
					req := mustRequest(raw)
					if err := env.p.cache.Delete(cache.MakeFromRequest(req)); err == nil {
						evicted = true
						evictedAt = vsched.Stamp()
					}
				})
			}
			vsched.JoinHarness()
			if p.Policy != "" {
				vsched.Quiesce()
				vtime.Advance(2 * time.Second)
				before := len(env.origin.Log)
				vnet.ServeRecorded(env.p, raw, nil, nil)
				laterContacts = len(env.origin.Log) - before
				env.origin.Log = env.origin.Log[:before]
			}
			originLog = append([]vnet.ReqRec(nil), env.origin.Log...)
			cands = env.origin.Candidates()
			version = res.Version
			env.origin.Gate = nil
			env.close()
			vsched.Quiesce()
		}
		c.Explore(vrun.ExploreOpts{Name: p.Name, K: -1, E: -1, Prop: p.Prop, Atomic: proxyIsPoint, Body: body, Check: func(x *vsched.Exec) {
			nreq := len(originLog) - preLog
			pat := fmt.Sprintf("%s origin=%d", p.Name, nreq)
			for i, r := range results {
				pat += fmt.Sprintf(" c%d=%d/%d", i+1, r.resp.Status, len(r.resp.Body))
			}
			c.Outcome(pat)
			wantStatus := 200
			if p.Outcome == "status-500" {
				wantStatus = 500
			}
			for i, r := range results {
				if r.canceled || (p.Cancel == i+1) {
					continue // the client that hung up is owed nothing
				}
				who := "client " + strconv.Itoa(i+1)
				switch {
				case r.resp.Dropped || r.resp.Panic != "":
					c.Violation(p.Prop+"/"+p.Name+"/no-response", who+" got no response ("+r.resp.Err+r.resp.Panic+")", x)
				case r.resp.Status != wantStatus:
					c.Violation(p.Prop+"/"+p.Name+"/wrong-status/"+strconv.Itoa(r.resp.Status), fmt.Sprintf("%s got status %d (%s), the origin answers %d to this request; origin log: %s", who, r.resp.Status, strings.TrimSpace(r.resp.Body), wantStatus, logSummary(originLog[preLog:])), x)
				case r.resp.Err != "":
					c.Violation(p.Prop+"/"+p.Name+"/broken-body", who+": "+r.resp.Err, x)
				case wantStatus == 200:
					cand, why := vnet.Identify([]byte(r.resp.Body), cands)
					if why != "" {
						c.Violation(p.Prop+"/"+p.Name+"/incomplete-or-mixed-body", who+" received a body that is no complete origin body: "+why, x)
					} else if et := r.resp.Header.Get("ETag"); et != vnet.ETagFor(cand.R, cand.V) {
						c.Violation(p.Prop+"/"+p.Name+"/mispaired-validator", fmt.Sprintf("%s received the body of version %d with ETag %s", who, cand.V, et), x)
					} else if cl := r.resp.Header.Get("Content-Length"); cl != "" && cl != strconv.Itoa(len(r.resp.Body)) {
						c.Violation(p.Prop+"/"+p.Name+"/mispaired-length", fmt.Sprintf("%s received %d body bytes (version %d) under Content-Length %s", who, len(r.resp.Body), cand.V, cl), x)
					} else if cand.V != version && !(p.Start == "fresh") && p.AdvanceS == 0 && p.Overwrite == "" {
						c.Violation(p.Prop+"/"+p.Name+"/outdated-body", fmt.Sprintf("%s received version %d, the origin's current version is %d", who, cand.V, version), x)
					}
				}
			}
			if p.Policy == "force-1s" && policyDone != 0 && originAnswered != 0 && policyDone < originAnswered && laterContacts == 0 {
				c.Violation("C03/"+p.Name+"/forced-default-lifetime-not-applied", fmt.Sprintf("force_default_max_age with default_max_age=1s was in force (switch complete at stamp %d) before the origin answered (stamp %d), yet a request two seconds later was served without contacting the origin", policyDone, originAnswered), x)
			}
			if overwriter != nil {
				switch {
				case overwriter.Dropped || overwriter.Panic != "":
					c.Violation(p.Prop+"/"+p.Name+"/no-response", "the range client got no response ("+overwriter.Err+overwriter.Panic+")", x)
				case overwriter.Status != 200 && overwriter.Status != 206:
					c.Violation(p.Prop+"/"+p.Name+"/wrong-status/"+strconv.Itoa(overwriter.Status), fmt.Sprintf("the range client got status %d", overwriter.Status), x)
				case overwriter.Err != "":
					c.Violation(p.Prop+"/"+p.Name+"/broken-body", "range client: "+overwriter.Err, x)
				}
			}
			// (also with a client that hangs up: "a client that disconnects never changes what the others
			// receive", and the one fetch is still the only one)
			// (an empty body is storable on the memory backend only: the file backend refuses it by design, which
			// makes the answer "turn out not to be cacheable" there, and then every client fetches for itself)
			// (only when the removal was complete before the origin answered the revalidation: an entry removed
			// after its renewal, between the shared fetch and a client's re-opening of it, costs that client a
			// fetch of its own, which is the fall-back C09 asks for)
			if p.Prop == "C05" && p.Outcome == "cacheable" && p.Evictor != "" && p.Overwrite == "" && evicted && originAnswered != 0 && evictedAt < originAnswered && nreq > 2 {
				// the stale entry is removed (cleanup cycle, eviction, delete) while it is being revalidated: the
				// origin's 304 has nothing left to renew, so the resource is fetched in full - once, for all
				// of them ("a single origin fetch"): one revalidation and at most one full fetch
				c.Violation("C05/"+p.Name+"/origin-fetch-count", fmt.Sprintf("%d clients asking for the same %s resource, whose entry was removed during the revalidation, caused %d origin requests, expected at most 2 (the revalidation and one full fetch): %s", p.Clients, p.Start, nreq, logSummary(originLog[preLog:])), x)
			}
			if p.Prop == "C05" && (p.Outcome == "cacheable" || (p.Outcome == "empty-body" && p.Backend == "memory")) && p.Evictor == "" && p.Overwrite == "" {
				want := 1
				if p.Start == "fresh" {
					want = 0
				}
				if nreq != want {
					c.Violation("C05/"+p.Name+"/origin-fetch-count", fmt.Sprintf("%d clients asking for the same %s resource caused %d origin requests, expected %d: %s", p.Clients, p.Start, nreq, want, logSummary(originLog[preLog:])), x)
				}
			}
			_ = evicted
		}})
	}
}

func logSummary(l []vnet.ReqRec) string {
	var parts []string
	for _, r := range l {
		s := fmt.Sprintf("T%d %s->%d", r.Thread, r.Method, r.Status)
		if r.Header.Get("If-None-Match") != "" {
			s += "(conditional)"
		}
		if r.Canceled {
			s += "(canceled)"
		}
		parts = append(parts, s)
	}
	return "[" + strings.Join(parts, ", ") + "]"
}
