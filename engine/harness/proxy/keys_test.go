//go:build verif

package proxy

import (
	"fmt"
	"strings"

	"reservoir/zzverif/vnet"
	"reservoir/zzverif/vrun"
)

func init() { vrun.Register("proxy/keys", scenarioKeysE2E) }

// End-to-end confirmation for C02: store A through the proxy, request B, decode whose body
// came back. must=true: B must be answered from A's entry; must=false: B must get B's body.
func scenarioKeysE2E(c *vrun.Ctx) {
	type pair struct {
		a, b  string
		share bool
		class string
	}
	pairs := []pair{
		{"/dir/", "/dir", false, "trailing-slash"},
		{"/a|b?c", "/a?b|c", false, "pipe-moved-between-path-and-query"},
		{"/a%2Fb", "/a/b", false, "encoded-slash"},
		{"/a?c&d", "/a?d&c", false, "query-order"},
		{"/A", "/a", false, "path-case"},
		{"/x?", "/x?y", false, "query"},
		{"/a/./b", "/a/b", true, "dot-segment"},
		{"/a/c/../b", "/a/b", true, "dot-dot-segment"},
	}
	for _, be := range []string{"memory", "file"} {
		env := newEnv(envOpts{Backend: be, Server: true})
		for i, p := range pairs {
			c.Case()
			pa, pb := fmt.Sprintf("/k%d", i)+p.a, fmt.Sprintf("/k%d", i)+p.b
			env.origin.Put(pa, &vnet.Res{Name: fmt.Sprintf("A%d", i), Size: 30, Headers: vnet.H{{"Cache-Control", "max-age=600"}}})
			if !p.share {
				env.origin.Put(pb, &vnet.Res{Name: fmt.Sprintf("B%d", i), Size: 30, Headers: vnet.H{{"Cache-Control", "max-age=600"}}})
			}
			ra, _ := env.do("GET", pa, nil, "")
			rb, reqs := env.do("GET", pb, nil, "")
			ca, _ := vnet.Identify([]byte(ra.Body), env.origin.Candidates())
			cb, _ := vnet.Identify([]byte(rb.Body), env.origin.Candidates())
			c.Outcome(fmt.Sprintf("%s:%s:%s/%s", be, p.class, ca.R, cb.R))
			if p.share {
				if len(reqs) != 0 || cb.R != ca.R {
					c.Violation("C02/e2e/same-resource-not-shared/"+p.class, fmt.Sprintf("%s and %s name the same resource but the second request contacted the origin (%d requests) / got %s", p.a, p.b, len(reqs), cb.R), nil)
				}
				continue
			}
			if cb.R != fmt.Sprintf("B%d", i) {
				c.Violation("C02/e2e/wrong-resource-served/"+p.class, fmt.Sprintf("after %s was stored, a request for %s was answered with the body of %s (status %d, origin requests %d)", p.a, p.b, cb.R, rb.Status, len(reqs)), nil)
			}
		}
		env.close()
	}
	// the host / scheme component, on both transports: every (first request, second request) pair of
	// addressed origins; the second must be answered with the body of the origin IT names
	type addr struct {
		name    string
		tunnel  string // CONNECT authority ("" = plain proxying)
		host    string // Host header / authority of the absolute target
		resHost string // which scripted origin that is (lower case, as the proxy dials it)
	}
	addrs := []addr{
		{"plain a.test", "", "a.test", "a.test"},
		{"plain A.TEST", "", "A.TEST", "a.test"},
		{"plain b.test", "", "b.test", "b.test"},
		{"plain a.test:8080", "", "a.test:8080", "a.test:8080"},
		{"tunnel a.test", "a.test:443", "a.test", "a.test"},
		{"tunnel a.test, inner Host b.test", "a.test:443", "b.test", "b.test"},
		{"tunnel b.test", "b.test:443", "b.test", "b.test"},
		{"tunnel a.test, inner Host A.test", "a.test:443", "A.test", "a.test"},
	}
	for _, be := range []string{"memory", "file"} {
		env := newEnv(envOpts{Backend: be, WithCA: true, Server: true})
		n := 0
		send := func(a addr, uri string) *vnet.Resp {
			if a.tunnel == "" {
				raw := "GET http://" + a.host + uri + " HTTP/1.1\r\nHost: " + a.host + "\r\nUser-Agent: vf\r\nAccept-Encoding: identity\r\n\r\n"
				return env.srv.Do(raw)
			}
			h, _, _ := strings.Cut(a.tunnel, ":")
			t, cr := env.srv.OpenTunnel(a.tunnel, env.tlsConfig(h))
			if t == nil {
				return cr
			}
			defer t.Close()
			return t.Do(rawOriginFormHost("GET", uri, nil, "", a.host))
		}
		for i, first := range addrs {
			for j, second := range addrs {
				if i == j {
					continue
				}
				c.Case()
				n++
				uri := fmt.Sprintf("/h%d/p", n)
				for _, h := range []string{"a.test", "b.test", "a.test:8080"} {
					env.origin.PutHost(h, uri, &vnet.Res{Name: fmt.Sprintf("H%d-%s", n, h), Size: 30, Headers: vnet.H{{"Cache-Control", "max-age=600"}}})
				}
				r1 := send(first, uri)
				before := len(env.origin.Log)
				r2 := send(second, uri)
				contacted := len(env.origin.Log) - before
				c1, _ := vnet.Identify([]byte(r1.Body), env.origin.Candidates())
				c2, why := vnet.Identify([]byte(r2.Body), env.origin.Candidates())
				c.Outcome(fmt.Sprintf("%s:hosts:%s->%s:%d", be, first.name, second.name, contacted))
				want := fmt.Sprintf("H%d-%s", n, second.resHost)
				if r2.Status != 200 || c2.R != want {
					c.Violation("C02/e2e/wrong-host-served/"+second.name+"/after/"+first.name, fmt.Sprintf("after %q fetched %s (got %s), %q was answered with status %d and the body of %q (%s); it names %s", first.name, uri, c1.R, second.name, r2.Status, c2.R, why, want), nil)
				}
				sameResource := first.resHost == second.resHost && (first.tunnel == "") == (second.tunnel == "")
				if sameResource && contacted != 0 {
					c.Violation("C02/e2e/same-resource-not-shared/host-case-or-tunnel-spelling", fmt.Sprintf("%q and %q name the same resource but the second request contacted the origin %d times", first.name, second.name, contacted), nil)
				}
			}
		}
		env.close()
	}
	c.Sample(map[string]any{"pair": []string{"/dir/", "/dir"}, "expect": "distinct entries"})
}
