//go:build verif

package proxy

import (
	"fmt"

	"reservoir/zzverif/vnet"
	"reservoir/zzverif/vrun"
)

func init() { vrun.Register("proxy/keys", scenarioKeysE2E) }

// End-to-end confirmation for C02: store A through the proxy, request B, decode whose body
// came back. must=true: B must be answered from A's entry; must=false: B must get B's body.
func scenarioKeysE2E(c *vrun.Ctx) {
	type pair struct {
		a, b  string
		share bool
		class string
	}
	pairs := []pair{
		{"/dir/", "/dir", false, "trailing-slash"},
		{"/a|b?c", "/a?b|c", false, "pipe-moved-between-path-and-query"},
		{"/a%2Fb", "/a/b", false, "encoded-slash"},
		{"/a?c&d", "/a?d&c", false, "query-order"},
		{"/A", "/a", false, "path-case"},
		{"/x?", "/x?y", false, "query"},
		{"/a/./b", "/a/b", true, "dot-segment"},
		{"/a/c/../b", "/a/b", true, "dot-dot-segment"},
	}
	for _, be := range []string{"memory", "file"} {
		env := newEnv(envOpts{Backend: be, Server: true})
		for i, p := range pairs {
			c.Case()
			pa, pb := fmt.Sprintf("/k%d", i)+p.a, fmt.Sprintf("/k%d", i)+p.b
			env.origin.Put(pa, &vnet.Res{Name: fmt.Sprintf("A%d", i), Size: 30, Headers: vnet.H{{"Cache-Control", "max-age=600"}}})
			if !p.share {
				env.origin.Put(pb, &vnet.Res{Name: fmt.Sprintf("B%d", i), Size: 30, Headers: vnet.H{{"Cache-Control", "max-age=600"}}})
			}
			ra, _ := env.do("GET", pa, nil, "")
			rb, reqs := env.do("GET", pb, nil, "")
			ca, _ := vnet.Identify([]byte(ra.Body), env.origin.Candidates())
			cb, _ := vnet.Identify([]byte(rb.Body), env.origin.Candidates())
			c.Outcome(fmt.Sprintf("%s:%s:%s/%s", be, p.class, ca.R, cb.R))
			if p.share {
				if len(reqs) != 0 || cb.R != ca.R {
					c.Violation("C02/e2e/same-resource-not-shared/"+p.class, fmt.Sprintf("%s and %s name the same resource but the second request contacted the origin (%d requests) / got %s", p.a, p.b, len(reqs), cb.R), nil)
				}
				continue
			}
			if cb.R != fmt.Sprintf("B%d", i) {
				c.Violation("C02/e2e/wrong-resource-served/"+p.class, fmt.Sprintf("after %s was stored, a request for %s was answered with the body of %s (status %d, origin requests %d)", p.a, p.b, cb.R, rb.Status, len(reqs)), nil)
			}
		}
		env.close()
	}
	c.Sample(map[string]any{"pair": []string{"/dir/", "/dir"}, "expect": "distinct entries"})
}
