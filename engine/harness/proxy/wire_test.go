//go:build verif

package proxy

import (
	"bytes"
	"compress/gzip"
	"fmt"
	"net/http"
	"sort"
	"strconv"
	"strings"

	"reservoir/zzverif/vnet"
	"reservoir/zzverif/vrun"
)

func init() { vrun.Register("proxy/wire", scenarioWire) }

// scenarioWire (C08, C01): the same fidelity questions as proxy/relay, but with net/http's own
// Transport between the proxy and a hand-written origin, so that what the transport adds to a
// request, strips from a response or decodes on the way is part of what is judged. The client side
// is the real http.Server over in-memory connections as everywhere else.
func scenarioWire(c *vrun.Ctx) {
	gz := func(s string) string {
		var b bytes.Buffer
		zw := gzip.NewWriter(&b)
		zw.Write([]byte(s))
		zw.Close()
		return b.String()
	}
	plainBody := strings.Repeat("the quick brown fox ", 20)
	type wcase struct {
		name    string
		reqHdrs vnet.H
		answer  func(req *http.Request) (string, bool)
		judge   func(resp *vnet.Resp, heads []string) []string
	}
	// method and body of the cases that are not a bare GET
	wireReq := map[string][2]string{"get-with-body-answer-unstorable": {"GET", "payload"}, "post-answered-416": {"POST", "payload"}}
	sent := func(h vnet.H) map[string]string {
		m := map[string]string{"Host": originHost}
		for _, kv := range h {
			m[http.CanonicalHeaderKey(kv[0])] = kv[1]
		}
		return m
	}
	// headers the origin received that the client did not send (Via and forwarding headers are the proxy's own business)
	added := func(head string, clientHdrs vnet.H) []string {
		have := sent(clientHdrs)
		var out []string
		for _, l := range vnet.HeaderLines(head) {
			k, _, _ := strings.Cut(l, ":")
			k = http.CanonicalHeaderKey(strings.TrimSpace(k))
			if _, ok := have[k]; !ok && k != "Via" && k != "X-Forwarded-For" && k != "Connection" {
				out = append(out, l)
			}
		}
		sort.Strings(out)
		return out
	}
	encodedAnswer := func(req *http.Request) (string, bool) {
		if strings.Contains(req.Header.Get("Accept-Encoding"), "gzip") {
			b := gz(plainBody)
			return "HTTP/1.1 200 OK\r\nContent-Type: text/plain\r\nContent-Encoding: gzip\r\nETag: \"v1-gzip\"\r\nCache-Control: max-age=600\r\nContent-Length: " + strconv.Itoa(len(b)) + "\r\n\r\n" + b, false
		}
		return "HTTP/1.1 200 OK\r\nContent-Type: text/plain\r\nETag: \"v1-identity\"\r\nCache-Control: max-age=600\r\nContent-Length: " + strconv.Itoa(len(plainBody)) + "\r\n\r\n" + plainBody, false
	}
	cases := []wcase{
		{"bare-client-request", nil, encodedAnswer, func(resp *vnet.Resp, heads []string) []string {
			var p []string
			for i, h := range heads {
				if a := added(h, nil); len(a) > 0 {
					p = append(p, fmt.Sprintf("request-headers-added: upstream request %d carries header lines the client never sent: %v", i+1, a))
				}
			}
			// whatever representation the origin chose, the validator must belong to the body delivered
			et, ce := resp.Header.Get("Etag"), resp.Header.Get("Content-Encoding")
			switch {
			case ce == "gzip" && resp.Body == gz(plainBody) && et == `"v1-gzip"`:
			case ce == "" && resp.Body == plainBody && et == `"v1-identity"`:
			default:
				p = append(p, fmt.Sprintf("validator-of-another-representation: delivered %d body bytes (Content-Encoding %q) with ETag %s", len(resp.Body), ce, et))
			}
			return p
		}},
		{"client-accepts-gzip", vnet.H{{"Accept-Encoding", "gzip"}, {"User-Agent", "wire-client/1"}}, encodedAnswer, func(resp *vnet.Resp, heads []string) []string {
			var p []string
			if resp.Header.Get("Content-Encoding") != "gzip" || resp.Body != gz(plainBody) {
				p = append(p, fmt.Sprintf("response-body-changed: the origin sent %d gzip bytes, the client received %d bytes with Content-Encoding %q", len(gz(plainBody)), len(resp.Body), resp.Header.Get("Content-Encoding")))
			}
			for i, h := range heads {
				if a := added(h, vnet.H{{"Accept-Encoding", "gzip"}, {"User-Agent", "wire-client/1"}}); len(a) > 0 {
					p = append(p, fmt.Sprintf("request-headers-added: upstream request %d carries header lines the client never sent: %v", i+1, a))
				}
			}
			return p
		}},
		{"connection-close-nominates-a-header", vnet.H{{"User-Agent", "wire-client/1"}, {"Accept-Encoding", "identity"}}, func(req *http.Request) (string, bool) {
			return "HTTP/1.1 200 OK\r\nConnection: close, X-Hop\r\nX-Hop: secret\r\nCache-Control: no-store\r\nContent-Length: 2\r\n\r\nok", true
		}, func(resp *vnet.Resp, heads []string) []string {
			if resp.Header.Get("X-Hop") != "" {
				return []string{"connection-nominated-relayed-with-close: the client received X-Hop although the origin's Connection header (close, X-Hop) names it"}
			}
			return nil
		}},
		{"chunked-body-breaks-off", vnet.H{{"User-Agent", "wire-client/1"}, {"Accept-Encoding", "identity"}}, func(req *http.Request) (string, bool) {
			return "HTTP/1.1 200 OK\r\nTransfer-Encoding: chunked\r\nCache-Control: no-store\r\n\r\n5\r\nhello\r\n7\r\npar", true
		}, func(resp *vnet.Resp, heads []string) []string {
			if resp.Err == "" && resp.Status == 200 {
				return []string{fmt.Sprintf("truncated-body-delivered-as-complete: the origin's chunked body broke off inside a chunk; the client received a well-formed 200 with %q and no sign of truncation", resp.Body)}
			}
			return nil
		}},
		{"sized-body-breaks-off", vnet.H{{"User-Agent", "wire-client/1"}, {"Accept-Encoding", "identity"}}, func(req *http.Request) (string, bool) {
			return "HTTP/1.1 200 OK\r\nContent-Length: 100\r\nCache-Control: no-store\r\n\r\nonly-forty-bytes-of-the-hundred-promised", true
		}, func(resp *vnet.Resp, heads []string) []string {
			if resp.Err == "" && resp.Status == 200 {
				return []string{fmt.Sprintf("truncated-body-delivered-as-complete: the origin announced 100 bytes and sent 40; the client received a well-formed 200 with %d bytes", len(resp.Body))}
			}
			return nil
		}},
		// requests with a body whose first answer the proxy does not keep: the origin's answer to the
		// request the client sent must reach the client (not an error made up after a second attempt
		// that has no body left to send)
		{"get-with-body-answer-unstorable", vnet.H{{"User-Agent", "wire-client/1"}, {"Accept-Encoding", "identity"}}, func(req *http.Request) (string, bool) {
			return "HTTP/1.1 200 OK\r\nCache-Control: no-store\r\nContent-Type: text/plain\r\nContent-Length: 2\r\n\r\nok", false
		}, func(resp *vnet.Resp, heads []string) []string {
			if resp.Status != 200 || resp.Body != "ok" {
				return []string{fmt.Sprintf("origin-answer-lost: the origin answered the GET (which carried a body) with 200 \"ok\"; the client received %d %q %s", resp.Status, resp.Body, resp.Err)}
			}
			return nil
		}},
		{"post-answered-416", vnet.H{{"User-Agent", "wire-client/1"}, {"Accept-Encoding", "identity"}}, func(req *http.Request) (string, bool) {
			return "HTTP/1.1 416 Range Not Satisfiable\r\nCache-Control: no-store\r\nContent-Type: text/plain\r\nContent-Length: 4\r\n\r\nnope", false
		}, func(resp *vnet.Resp, heads []string) []string {
			var p []string
			if resp.Status != 416 || resp.Body != "nope" {
				p = append(p, fmt.Sprintf("origin-answer-lost: the origin answered the POST (no Range was sent) with 416 \"nope\"; the client received %d %q %s", resp.Status, resp.Body, resp.Err))
			}
			if len(heads) != 1 {
				p = append(p, fmt.Sprintf("request-repeated: a POST without a Range header was sent to the origin %d times", len(heads)))
			}
			return p
		}},
	}
	for _, be := range []string{"memory", "file"} {
		for _, wc := range cases {
			for _, transport := range []string{"plain", "tunnel"} {
				c.Case()
				env := newEnv(envOpts{Backend: be, WithCA: true, Server: true, DefaultMaxAgeS: 3600, Retry416: true}) // retry_on_range_416 as shipped
				wo := &vnet.WireOrigin{}
				answer := wc.answer
				wo.Answer = func(req *http.Request, head string) (string, bool) { return answer(req) }
				http.DefaultTransport = wo.Transport()
				uri := "/w/" + wc.name
				var resp *vnet.Resp
				target := uri
				if transport == "plain" {
					target = "http://" + originHost + uri
				}
				method, body := "GET", ""
				if mb, ok := wireReq[wc.name]; ok {
					method, body = mb[0], mb[1]
				}
				raw := method + " " + target + " HTTP/1.1\r\nHost: " + originHost + "\r\n"
				for _, kv := range wc.reqHdrs {
					raw += kv[0] + ": " + kv[1] + "\r\n"
				}
				if body != "" {
					raw += "Content-Length: " + strconv.Itoa(len(body)) + "\r\n"
				}
				raw += "\r\n" + body
				if transport == "plain" {
					resp = env.srv.Do(raw)
				} else {
					if t, cr := env.srv.OpenTunnel(originHost+":443", env.tlsConfig(originHost)); t == nil {
						resp = cr
					} else {
						resp = t.Do(raw)
						t.Close()
					}
				}
				probs := wc.judge(resp, append([]string(nil), wo.Heads...))
				c.Outcome(fmt.Sprintf("%s/%s/%s:%d:%d", be, wc.name, transport, resp.Status, len(probs)))
				for _, pr := range probs {
					kind, _, _ := strings.Cut(pr, ":")
					prop := "C08"
					if strings.HasPrefix(kind, "truncated") || strings.HasPrefix(kind, "validator") {
						prop = "C01"
					}
					if strings.HasPrefix(kind, "origin-answer-lost") {
						prop = "C09"
					}
					c.SetCase(be + " " + transport + " " + wc.name)
					c.Violation(prop+"/wire/"+kind+"/"+wc.name+"/"+transport, pr+" | "+be+", "+transport+" transport, upstream heads: "+fmt.Sprintf("%q", wo.Heads), nil)
				}
				env.close()
			}
		}
	}
}
