//go:build verif

package proxy

import (
	"bufio"
	"context"
	"crypto/ecdsa"
	"crypto/elliptic"
	"crypto/rand"
	"crypto/x509"
	"crypto/x509/pkix"
	"encoding/pem"
	"math/big"
	"net"
	"net/http"
	"os"
	"path/filepath"
	"strconv"
	"strings"
	"testing"
	"time"

	"reservoir/config"
	"reservoir/metrics"
	"reservoir/proxy/certs"
	"reservoir/utils/bytesize"
	"reservoir/utils/duration"
	"reservoir/zzverif/vnet"
	"reservoir/zzverif/vrun"
	"reservoir/zzverif/vtime"
)

func TestVF(t *testing.T) { vrun.Main(t) }

var scratchRoot = func() string {
	d := os.Getenv("VF_SCRATCH")
	if d == "" {
		d = os.TempDir()
	}
	return d
}()

type envOpts struct {
	Backend          string `json:"backend"`
	IgnoreCC         bool   `json:"ignore_cc"`
	ForceDefault     bool   `json:"force_default"`
	DefaultMaxAgeS   int    `json:"default_max_age_s"`
	RetryInvalid     bool   `json:"retry_invalid_range"`
	Retry416         bool   `json:"retry_416"`
	Shards           int    `json:"shards"`
	Limit            int64  `json:"limit"`
	WithCA           bool   `json:"with_ca"`
	Server           bool   `json:"server"` // serve through the real http.Server over in-memory pipes
	BudgetPercent    int    `json:"budget_percent"`
	Plain            bool   `json:"plain"` // configure through the update API instead of command-line overwrites
	CleanupIntervalS int    `json:"cleanup_interval_s"`
}

type penv struct {
	opts   envOpts
	cfg    *config.Config
	p      *Proxy
	origin *vnet.Origin
	srv    *vnet.PipeServer
	cancel context.CancelFunc
	ca     *certs.PrivateCA
	pool   *x509.CertPool
	dir    string
	seq    int
}

type noCA struct{}

func newEnv(o envOpts) *penv {
	metrics.Global = metrics.NewMetrics()
	if o.DefaultMaxAgeS == 0 {
		o.DefaultMaxAgeS = 3600
	}
	if o.Shards == 0 {
		o.Shards = 32
	}
	if o.Limit == 0 {
		o.Limit = 1 << 30
	}
	if o.Backend == "" {
		o.Backend = "memory"
	}
	if o.BudgetPercent == 0 {
		o.BudgetPercent = 75
	}
	if o.BudgetPercent < 0 {
		o.BudgetPercent = 0
	}
	e := &penv{opts: o}
	cfg := config.NewDefault()
	if o.Plain {
		// settings go in through the update API (no command-line overwrites), so that later
		// updates of the same properties take effect
		typ := "memory"
		if o.Backend == "file" {
			typ = "file"
		}
		e.dir = filepath.Join(scratchRoot, "pc")
		_, err := config.UpdatePartialFromConfig(cfg, map[string]any{
			"proxy": map[string]any{"upstream_default_https": false, "retry_on_range_416": o.Retry416, "retry_on_invalid_range": o.RetryInvalid,
				"cache_policy": map[string]any{"ignore_cache_control": o.IgnoreCC, "force_default_max_age": o.ForceDefault, "default_max_age": strconv.Itoa(o.DefaultMaxAgeS) + "s"}},
			"cache": map[string]any{"lock_shards": o.Shards, "type": typ, "cleanup_interval": "100000h", "file": map[string]any{"dir": e.dir}},
		})
		if err != nil {
			panic(err)
		}
		e.cfg = cfg
		ctx, cancel := context.WithCancel(context.Background())
		e.cancel = cancel
		p, err := NewProxy(cfg, nil, ctx)
		if err != nil {
			panic(err)
		}
		e.p = p
		e.origin = vnet.NewOrigin()
		e.origin.Install()
		return e
	}
	cfg.Proxy.UpstreamDefaultHttps.Overwrite(false)
	cfg.Proxy.RetryOnRange416.Overwrite(o.Retry416)
	cfg.Proxy.RetryOnInvalidRange.Overwrite(o.RetryInvalid)
	cfg.Proxy.CachePolicy.IgnoreCacheControl.Overwrite(o.IgnoreCC)
	cfg.Proxy.CachePolicy.ForceDefaultMaxAge.Overwrite(o.ForceDefault)
	cfg.Proxy.CachePolicy.DefaultMaxAge.Overwrite(duration.Duration(time.Duration(o.DefaultMaxAgeS) * time.Second))
	cfg.Cache.LockShards.Overwrite(o.Shards)
	cfg.Cache.MaxCacheSize.Overwrite(bytesize.ByteSize(o.Limit))
	if o.CleanupIntervalS > 0 {
		cfg.Cache.CleanupInterval.Overwrite(duration.Duration(time.Duration(o.CleanupIntervalS) * time.Second))
	} else {
		cfg.Cache.CleanupInterval.Overwrite(duration.Duration(100000 * time.Hour))
	}
	cfg.Cache.Memory.MemoryBudgetPercent.Overwrite(o.BudgetPercent)
	e.dir = filepath.Join(scratchRoot, "pc")
	cfg.Cache.File.Dir.Overwrite(e.dir)
	if o.Backend == "file" {
		cfg.Cache.Type.Overwrite(config.CacheTypeFile)
	} else {
		cfg.Cache.Type.Overwrite(config.CacheTypeMemory)
	}
	e.cfg = cfg
	ctx, cancel := context.WithCancel(context.Background())
	e.cancel = cancel
	var ca certs.CertAuthority
	if o.WithCA {
		e.ca, e.pool = testCA()
		ca = e.ca
	}
	p, err := NewProxy(cfg, ca, ctx)
	if err != nil {
		panic(err)
	}
	e.p = p
	e.origin = vnet.NewOrigin()
	e.origin.Install()
	if o.Server {
		e.srv = vnet.NewPipeServer(p)
	}
	return e
}

func (e *penv) close() {
	if e.srv != nil {
		e.srv.Close()
	}
	e.p.Destroy()
	e.cancel()
	os.RemoveAll(e.dir)
}

var caCache struct {
	ca   *certs.PrivateCA
	pool *x509.CertPool
	cert string
	key  string
}

// testCA creates (once per process) a CA valid around the virtual epoch.
func testCA() (*certs.PrivateCA, *x509.CertPool) {
	if caCache.cert == "" {
		priv, _ := ecdsa.GenerateKey(elliptic.P256(), rand.Reader)
		tmpl := x509.Certificate{
			SerialNumber: big.NewInt(1), Subject: pkix.Name{Organization: []string{"vf-test-ca"}, CommonName: "vf test ca"},
			NotBefore: vtime.Epoch.Add(-24 * time.Hour), NotAfter: vtime.Epoch.Add(10 * 365 * 24 * time.Hour),
			KeyUsage: x509.KeyUsageCertSign | x509.KeyUsageDigitalSignature, BasicConstraintsValid: true, IsCA: true,
		}
		der, err := x509.CreateCertificate(rand.Reader, &tmpl, &tmpl, &priv.PublicKey, priv)
		if err != nil {
			panic(err)
		}
		dir := filepath.Join(scratchRoot, "ca")
		os.MkdirAll(dir, 0o755)
		caCache.cert, caCache.key = filepath.Join(dir, "ca.crt"), filepath.Join(dir, "ca.key")
		os.WriteFile(caCache.cert, pem.EncodeToMemory(&pem.Block{Type: "CERTIFICATE", Bytes: der}), 0o644)
		kb, _ := x509.MarshalPKCS8PrivateKey(priv)
		os.WriteFile(caCache.key, pem.EncodeToMemory(&pem.Block{Type: "PRIVATE KEY", Bytes: kb}), 0o600)
		caCache.pool = x509.NewCertPool()
		c, _ := x509.ParseCertificate(der)
		caCache.pool.AddCert(c)
	}
	ca, err := certs.NewPrivateCA(caCache.cert, caCache.key)
	if err != nil {
		panic(err)
	}
	return ca, caCache.pool
}

const originHost = "o.test"

// rawRequest builds the wire form of a proxy request (absolute-URI request line).
func rawRequest(method, uri string, hdrs vnet.H, body string) string {
	var b strings.Builder
	b.WriteString(method + " http://" + originHost + uri + " HTTP/1.1\r\n")
	b.WriteString("Host: " + originHost + "\r\n")
	b.WriteString("User-Agent: vf\r\nAccept-Encoding: identity\r\n")
	for _, kv := range hdrs {
		b.WriteString(kv[0] + ": " + kv[1] + "\r\n")
	}
	if body != "" {
		b.WriteString("Content-Length: " + strconv.Itoa(len(body)) + "\r\n")
	}
	b.WriteString("\r\n")
	b.WriteString(body)
	return b.String()
}

// do sends one request and returns the response together with the origin requests it caused.
func (e *penv) do(method, uri string, hdrs vnet.H, body string) (*vnet.Resp, []vnet.ReqRec) {
	before := len(e.origin.Log)
	var r *vnet.Resp
	raw := rawRequest(method, uri, hdrs, body)
	if e.srv != nil {
		r = e.srv.Do(raw)
	} else {
		r = vnet.ServeRecorded(e.p, raw, nil, nil)
	}
	return r, append([]vnet.ReqRec(nil), e.origin.Log[before:]...)
}

func (e *penv) uniq(prefix string) string {
	e.seq++
	return "/" + prefix + strconv.Itoa(e.seq)
}

func httpDate(t time.Time) string { return t.UTC().Format(http.TimeFormat) }

func bufioReader(s string) *bufio.Reader { return bufio.NewReader(strings.NewReader(s)) }

func bufioConn(c net.Conn) *bufio.Reader { return bufio.NewReader(c) }

func mustRequest(raw string) *http.Request {
	r, err := http.ReadRequest(bufioReader(raw))
	if err != nil {
		panic(err)
	}
	return r
}
