//go:build verif

package proxy

import (
	"crypto/tls"
	"crypto/x509"
	"fmt"
	"net"
	"sort"
	"strconv"
	"strings"
	"time"

	"reservoir/zzverif/vnet"
	"reservoir/zzverif/vrun"
	"reservoir/zzverif/vtime"
)

func init() {
	vrun.Register("proxy/tunnel", scenarioTunnel)
	vrun.Register("proxy/tunnel-relay", scenarioTunnelRelay)
	vrun.Register("proxy/connect-targets", scenarioConnectTargets)
}

// exchange shapes of C10
type shape struct {
	name   string
	method string
	path   string
	hdrs   vnet.H
	body   string
	host   string // inner Host header (default: the origin's)
	// tunnelOnly: the shape has no plain-proxying counterpart (the inner Host differs from the CONNECT
	// authority), so only the two tunnel transports are compared
	tunnelOnly bool
	// advance: the clock is moved on by this much before the exchange (entries stored earlier in the
	// sequence go stale)
	advance time.Duration
}

var tunnelShapes = []shape{
	{"A-cacheable", "GET", "/a", nil, "", "", false, 0},
	{"B-chunked-nostore", "GET", "/b", nil, "", "", false, 0},
	{"C-404", "GET", "/c", nil, "", "", false, 0},
	{"D-204", "GET", "/d", nil, "", "", false, 0},
	{"E-head", "HEAD", "/a", nil, "", "", false, 0},
	{"F-range", "GET", "/a", vnet.H{{"Range", "bytes=1-4"}}, "", "", false, 0},
	{"G-post", "POST", "/g", nil, "payload", "", false, 0},
	{"H-500", "GET", "/h", nil, "", "", false, 0},
	{"I-headers", "GET", "/i", nil, "", "", false, 0},
	// exchanges that fail inside the proxy while carrying a request body: whatever becomes of the
	// exchange, its body bytes must not be read as the next request
	{"J-post-unusable-host", "POST", "/g", nil, "GET /a HTTP/1.1\r\nHost: " + originHost + "\r\n\r\n", "no such host", true, 0},
	{"K-post-origin-unreachable", "POST", "/k", nil, "0123456789abcdef", "", false, 0},
	// HEAD for a resource the origin sends without Content-Length: a head only, no body framing bytes
	{"L-head-chunked", "HEAD", "/b", nil, "", "", false, 0},
	// the origin announces 36 bytes and breaks off after 10: the client must learn that the body is
	// incomplete (the connection ends), and what follows on a new connection is unaffected
	{"M-origin-aborts-sized-body", "GET", "/m", nil, "", "", false, 0},
	// the origin names no content type: none is made up on either transport
	{"N-no-content-type", "GET", "/n", nil, "", "", false, 0},
	// a GET that carries a body: when it is answered from the store nobody reads that body, and it must
	// still not be taken for the next request on the tunnel
	{"O-get-with-body", "GET", "/a", nil, "GET /i HTTP/1.1\r\nHost: " + originHost + "\r\n\r\n", "", false, 0},
	// a HEAD that the proxy answers with an error page of its own: a head only
	{"P-head-origin-unreachable", "HEAD", "/k", nil, "", "", false, 0},
	// eleven minutes later: what A stored has gone stale and is revalidated; the origin's 304 carries
	// payload fields of its own (Content-Length: 0, a Content-Type), which describe the 304, not the stored body
	{"Q-a-again-after-expiry", "GET", "/a", nil, "", "", false, 11 * time.Minute},
}

func scriptTunnelOrigin(o *vnet.Origin, prefix string) {
	o.Put(prefix+"/a", &vnet.Res{Name: "ta", Size: 36, ETag: vnet.ETagFor("ta", 1), Headers: vnet.H{{"Cache-Control", "max-age=600"}, {"X-A", "token-a"}, {"Content-Type", "text/x-a"}},
		Headers304: vnet.H{{"Content-Length", "0"}, {"Content-Type", "text/x-304"}}})
	o.Put(prefix+"/b", &vnet.Res{Name: "tb", Size: 53, Chunked: true, Headers: vnet.H{{"Cache-Control", "no-store"}, {"Content-Type", "text/x-b"}}})
	o.Put(prefix+"/c", &vnet.Res{Name: "tc", Size: 12, Status: 404, Headers: vnet.H{{"Cache-Control", "no-store"}, {"X-C", "token-c"}, {"Content-Type", "text/x-c"}}})
	o.Put(prefix+"/d", &vnet.Res{Name: "td", Size: 0, Status: 204, Headers: vnet.H{{"X-D", "token-d"}}})
	o.Put(prefix+"/g", &vnet.Res{Name: "tg", Size: 7, Headers: vnet.H{{"Cache-Control", "no-store"}, {"Content-Type", "text/x-g"}}})
	o.Put(prefix+"/k", &vnet.Res{Name: "tk", Size: 5, DialError: true})
	o.Put(prefix+"/n", &vnet.Res{Name: "tn", Size: 15, Headers: vnet.H{{"Cache-Control", "no-store"}, {"X-N", "token-n"}}})
	o.Put(prefix+"/m", &vnet.Res{Name: "tm", Size: 36, AbortAfter: 10, Headers: vnet.H{{"Cache-Control", "no-store"}, {"Content-Type", "text/x-m"}}})
	o.Put(prefix+"/h", &vnet.Res{Name: "th", Size: 9, Status: 500, Headers: vnet.H{{"Content-Type", "text/x-h"}}})
	o.Put(prefix+"/i", &vnet.Res{Name: "ti", Size: 20, Headers: vnet.H{{"Cache-Control", "max-age=600"}, {"X-One", "token-i"}, {"Set-Cookie", "i=1"}, {"Content-Type", "text/x-i"}}})
}

func rawOriginForm(method, path string, hdrs vnet.H, body string) string {
	return rawOriginFormHost(method, path, hdrs, body, originHost)
}

func rawOriginFormHost(method, path string, hdrs vnet.H, body, host string) string {
	if host == "" {
		host = originHost
	}
	var b strings.Builder
	b.WriteString(method + " " + path + " HTTP/1.1\r\nHost: " + host + "\r\nUser-Agent: vf\r\nAccept-Encoding: identity\r\n")
	for _, kv := range hdrs {
		b.WriteString(kv[0] + ": " + kv[1] + "\r\n")
	}
	if body != "" {
		b.WriteString("Content-Length: " + strconv.Itoa(len(body)) + "\r\n")
	}
	b.WriteString("\r\n" + body)
	return b.String()
}

func (e *penv) tlsConfig(host string) *tls.Config {
	return &tls.Config{RootCAs: e.pool, ServerName: host, Time: vtime.Now}
}

// summary renders what the property compares: status, end-to-end headers, body.
func summary(r *vnet.Resp) string {
	if r.Err != "" || r.Dropped {
		return "ERR:" + r.Err
	}
	var hs []string
	for k, vs := range r.Header {
		switch k {
		case "Date", "Content-Length", "X-Verif-Transfer-Encoding", "Connection", "Transfer-Encoding":
			continue
		case "Last-Modified":
			// none of the scripted resources sends one: what appears is the time the proxy received the
			// response, which differs between the transports once a shape moves the clock
			continue
		}
		hs = append(hs, k+"="+strings.Join(vs, "|"))
	}
	sort.Strings(hs)
	body := r.Body
	if r.Status == 502 {
		// the proxy's own error page (no origin answer exists): http.Error appends a newline on the plain
		// transport, the raw responder does not; the wording of that page is not relaying behaviour
		body = strings.TrimRight(body, "\n")
	}
	return strconv.Itoa(r.Status) + " {" + strings.Join(hs, "; ") + "} body=" + strconv.Quote(body)
}

func scenarioTunnel(c *vrun.Ctx) {
	var p struct {
		Backend string `json:"backend"`
		Depth   int    `json:"depth"`
	}
	c.Params(&p)
	env := newEnv(envOpts{Backend: p.Backend, WithCA: true, Server: true})
	defer env.close()
	n := len(tunnelShapes)
	caseNo := 0
	pipelineTimeouts := 0
	ioTimeouts := 0
	for depth := 1; depth <= p.Depth; depth++ {
		total := 1
		for i := 0; i < depth; i++ {
			total *= n
		}
		for si := 0; si < total; si++ {
			caseNo++
			if !c.Mine(caseNo) {
				continue
			}
			if c.Expired() {
				return
			}
			seq := make([]shape, depth)
			x := si
			var names []string
			for i := depth - 1; i >= 0; i-- {
				seq[i] = tunnelShapes[x%n]
				x /= n
			}
			for _, s := range seq {
				names = append(names, s.name)
			}
			c.Case()
			env.seq++
			desc := strings.Join(names, " ")
			results := map[string][]string{}
			attempt := 0
		again:
			attempt++
			results = map[string][]string{}
			env.seq++ // fresh resources and cache keys for every attempt
			// pipelined: the whole sequence is written into one tunnel before the first answer is read
			timed := false // a sequence in which the clock moves between exchanges cannot be written in one go
			for _, s := range seq {
				timed = timed || s.advance > 0
			}
			if depth > 1 && pipelineTimeouts < 6 && !timed {
				prefix := "/s" + strconv.Itoa(env.seq) + "q"
				scriptTunnelOrigin(env.origin, prefix)
				if t, cr := env.srv.OpenTunnel(originHost+":443", env.tlsConfig(originHost)); t == nil {
					for range seq {
						results["pipelined"] = append(results["pipelined"], summary(cr))
					}
				} else {
					var raws []string
					for _, s := range seq {
						raws = append(raws, rawOriginFormHost(s.method, prefix+s.path, s.hdrs, s.body, s.host))
					}
					for _, r := range t.DoPipelined(raws) {
						results["pipelined"] = append(results["pipelined"], summary(r))
						if strings.Contains(r.Err, "timeout") {
							// every unanswered pipelined request costs the full read deadline of real time:
							// after a few of them (each already reported) the mode is switched off for this worker
							pipelineTimeouts++
							if pipelineTimeouts == 6 {
								c.Cap("pipelined mode switched off after 6 unanswered requests")
							}
						}
					}
					t.Close()
				}
			}
			for _, mode := range []string{"one-tunnel", "tunnel-per-request", "plain"} {
				prefix := "/s" + strconv.Itoa(env.seq) + mode[:1]
				scriptTunnelOrigin(env.origin, prefix)
				var tun *vnet.Tunnel
				for _, s := range seq {
					if s.advance > 0 {
						vtime.Advance(s.advance)
					}
					var r *vnet.Resp
					switch mode {
					case "plain":
						if s.tunnelOnly {
							r = &vnet.Resp{Err: "not applicable"}
							break
						}
						r = env.srv.Do(rawRequest(s.method, prefix+s.path, s.hdrs, s.body))
					case "tunnel-per-request":
						t, cr := env.srv.OpenTunnel(originHost+":443", env.tlsConfig(originHost))
						if t == nil {
							r = cr
						} else {
							r = t.Do(rawOriginFormHost(s.method, prefix+s.path, s.hdrs, s.body, s.host))
							t.Close()
						}
					default:
						if tun == nil {
							t, cr := env.srv.OpenTunnel(originHost+":443", env.tlsConfig(originHost))
							if t == nil {
								r = cr
								break
							}
							tun = t
						}
						r = tun.Do(rawOriginFormHost(s.method, prefix+s.path, s.hdrs, s.body, s.host))
						if r.Err != "" || r.Dropped {
							// a client whose exchange broke off does not reuse the connection: it opens a new tunnel
							tun.Close()
							tun = nil
						}
					}
					results[mode] = append(results[mode], summary(r))
				}
				if tun != nil {
					tun.Close()
				}
			}
			if attempt == 1 {
				// an exchange that ran into the read deadline is repeated once (fresh tunnel, fresh keys)
				// before it counts: only a response that is missing twice is reported as missing
				for _, rs := range results {
					for _, r := range rs {
						if strings.Contains(r, "i/o timeout") {
							goto again
						}
					}
				}
			}
			connectionEnded := false // on the pipelined tunnel: an exchange broke off, what was written behind it is void
			for i := range seq {
				one, per, plain := results["one-tunnel"][i], results["tunnel-per-request"][i], results["plain"][i]
				if seq[i].name == "M-origin-aborts-sized-body" && strings.HasPrefix(one, "ERR:") && strings.HasPrefix(per, "ERR:") && strings.HasPrefix(plain, "ERR:") && !strings.Contains(one+per+plain, "i/o timeout") {
					// the origin broke off: on every transport the client is told so by the end of the connection
					connectionEnded = true
					continue
				}
				if strings.HasPrefix(one, "ERR:") {
					c.SetCase(desc)
					c.Violation("C10/tunnel/no-response/"+seq[i].name+"/after-"+prevName(seq, i), fmt.Sprintf("exchange %d (%s) on the kept-alive tunnel got no well-formed response: %s | sequence: %s", i+1, seq[i].name, one, desc), nil)
					c.Violation("C16/tunnel/no-response/"+seq[i].name, fmt.Sprintf("exchange %d (%s) on a tunnel got no well-formed response: %s | sequence: %s", i+1, seq[i].name, one, desc), nil)
					break
				}
				if one != per {
					c.SetCase(desc)
					c.Violation("C10/tunnel/depends-on-earlier-exchange/"+seq[i].name+"/after-"+prevName(seq, i), fmt.Sprintf("exchange %d (%s) differs between one kept-alive tunnel and a tunnel of its own:\n kept-alive: %s\n own tunnel: %s\n sequence: %s", i+1, seq[i].name, one, per, desc), nil)
					break
				}
				if pl := results["pipelined"]; len(pl) == len(seq) && !connectionEnded && strings.ReplaceAll(pl[i], prefixOf(env.seq, "q"), "") != strings.ReplaceAll(per, prefixOf(env.seq, "t"), "") {
					c.SetCase(desc)
					c.Violation("C10/tunnel/pipelined-differs/"+seq[i].name+"/after-"+prevName(seq, i), fmt.Sprintf("exchange %d (%s) differs between a tunnel whose requests were all written before the first answer was read and a tunnel of its own:\n pipelined:  %s\n own tunnel: %s\n sequence: %s", i+1, seq[i].name, pl[i], per, desc), nil)
					break
				}
				if strings.HasPrefix(per, "ERR:") {
					connectionEnded = true
				}
				if per != plain && !seq[i].tunnelOnly {
					c.SetCase(desc)
					c.Violation("C10/tunnel/differs-from-plain/"+seq[i].name, fmt.Sprintf("exchange %d (%s) differs between a tunnel and plain proxying:\n tunnel: %s\n plain:  %s\n sequence: %s", i+1, seq[i].name, per, plain, desc), nil)
					break
				}
			}
			c.Outcome(desc)
			for _, rs := range results {
				for _, r := range rs {
					if strings.Contains(r, "i/o timeout") {
						ioTimeouts++
					}
				}
			}
			if ioTimeouts >= 1 {
				// an exchange stayed unanswered twice (first attempt and repetition): that is reported above.
				// Every unanswered exchange costs the full read deadline of real time, so this worker stops
				// here; the rest of its enumeration would mostly repeat the finding at minutes per sequence
				c.Cap("tunnel sequences stopped after a sequence in which an exchange ran into the read deadline twice")
				return
			}
			if caseNo%131 == 0 {
				c.Sample(map[string]any{"sequence": names, "one_tunnel": results["one-tunnel"]})
			}
		}
	}
	c.Res.Bounds["exchange_shapes"] = n
	c.Res.Bounds["max_sequence_length"] = p.Depth
}

func prevName(seq []shape, i int) string {
	if i == 0 {
		return "nothing"
	}
	return seq[i-1].name
}

// scenarioTunnelRelay: the C08 feature enumeration over the CONNECT transport (singles only
// on a fresh tunnel each, so that C10's accumulation cannot blur the picture).
func scenarioTunnelRelay(c *vrun.Ctx) {
	env := newEnv(envOpts{Backend: "memory", WithCA: true, Server: true})
	defer env.close()
	cases := relayCases()
	for i, rc := range cases {
		if len(rc.feats) > 1 && !c.Thorough() && i%5 != 0 {
			continue // quick tier: all singles and every fifth pair over CONNECT (all pairs run on plain transport)
		}
		if !c.Mine(i) {
			continue
		}
		if c.Expired() {
			return
		}
		c.Case()
		env.seq++
		rc.target = "/k" + strconv.Itoa(env.seq) + rc.target
		send := func(raw string) *vnet.Resp {
			t, cr := env.srv.OpenTunnel(originHost+":443", env.tlsConfig(originHost))
			if t == nil {
				return cr
			}
			defer t.Close()
			return t.Do(raw)
		}
		judgeRelay(c, env.origin, send, "connect", false, rc, env.seq)
	}
}

// scenarioConnectTargets: C11 (and C16) over CONNECT targets through the real handleCONNECT.
func scenarioConnectTargets(c *vrun.Ctx) {
	env := newEnv(envOpts{Backend: "memory", WithCA: true, Server: true})
	defer env.close()
	hosts := []string{"example.com", "EXAMPLE.com", "a.b.example.com", "xn--bcher-kva.example", "ex_ample.com", "localhost", "example.com.", "127.0.0.1", "10.0.0.1", "[::1]", "[2001:db8::1]", "[::ffff:1.2.3.4]"}
	ports := []string{"1", "80", "443", "8443", "65535"}
	malformed := []string{"example.com", "", ":443", "[::1", "h:99999", "h:", "h:-1", "a b:443", "[::1]:", "::1:443", "h:443:443", strings.Repeat("a", 300) + ":443"}
	env.origin.Put("/x", &vnet.Res{Name: "x", Size: 10, Headers: vnet.H{{"Cache-Control", "no-store"}}})
	i := 0
	for _, h := range hosts {
		for _, p := range ports {
			i++
			if !c.Mine(i) {
				continue
			}
			c.Case()
			target := h + ":" + p
			name := strings.Trim(h, "[]")
			cfg := env.tlsConfig(name)
			t, cr := env.srv.OpenTunnel(target, cfg)
			if t == nil {
				c.SetCase(target)
				c.Violation("C11/connect/no-valid-certificate/"+hostClass(h), fmt.Sprintf("CONNECT %s: no tunnel with a certificate valid for %q: status %d %s", target, name, cr.Status, cr.Err), nil)
				continue
			}
			st := t.State()
			leaf := st.PeerCertificates[0]
			names := append([]string{}, leaf.DNSNames...)
			for _, ip := range leaf.IPAddresses {
				names = append(names, ip.String())
			}
			if len(names) != 1 {
				c.SetCase(target)
				c.Violation("C11/connect/certificate-names/"+hostClass(h), fmt.Sprintf("CONNECT %s: certificate names %v, expected exactly the host", target, names), nil)
			}
			if _, err := leaf.Verify(x509.VerifyOptions{Roots: env.pool, CurrentTime: vtime.Peek(), DNSName: name, KeyUsages: []x509.ExtKeyUsage{x509.ExtKeyUsageServerAuth}}); err != nil {
				c.SetCase(target)
				c.Violation("C11/connect/verify/"+hostClass(h), fmt.Sprintf("CONNECT %s: %v", target, err), nil)
			}
			r := t.Do(rawOriginForm("GET", "/x", nil, ""))
			if r.Status != 200 {
				c.SetCase(target)
				c.Violation("C11/connect/request-through-tunnel", fmt.Sprintf("CONNECT %s: request through the tunnel: %d %s", target, r.Status, r.Err), nil)
			}
			t.Close()
			c.Outcome("ok:" + hostClass(h))
		}
	}
	// a client that sends its ClientHello in the same write as the CONNECT request (it need not wait for
	// the 200; what follows the request's blank line belongs to the tunnel): the handshake has to
	// complete and the tunnel has to work like any other
	for _, h := range []string{"eager.example.com", "127.0.0.9"} {
		i++
		if !c.Mine(i) {
			continue
		}
		c.Case()
		target := h + ":443"
		t, cr := env.srv.OpenTunnelEager(target, env.tlsConfig(h), 30*time.Second)
		if t == nil {
			c.SetCase(target + " eager")
			c.Violation("C11/connect/eager-client-gets-no-certificate/"+hostClass(h), fmt.Sprintf("CONNECT %s with the ClientHello sent right behind the request: status %d, %s", target, cr.Status, cr.Err), nil)
			c.Violation("C16/connect/eager-client-left-without-a-response", fmt.Sprintf("CONNECT %s with the ClientHello sent right behind the request: the proxy answered %d and then never completed the TLS handshake (%s)", target, cr.Status, cr.Err), nil)
			continue
		}
		if r := t.Do(rawOriginForm("GET", "/x", nil, "")); r.Status != 200 {
			c.SetCase(target + " eager")
			c.Violation("C11/connect/request-through-tunnel", fmt.Sprintf("CONNECT %s (eager client): request through the tunnel: %d %s", target, r.Status, r.Err), nil)
		}
		t.Close()
		c.Outcome("ok:eager:" + hostClass(h))
	}
	// positions of certificate expiry in a history of tunnels to one target (through the real
	// handleCONNECT, verified by the client at the virtual time): every history over {open a tunnel
	// to h:443, open one to h:8443, +239 h, +2 h} of length 4
	evs := []string{"t443", "t8443", "+239h", "+2h"}
	for hi := 0; hi < 4*4*4*4; hi++ {
		i++
		if !c.Mine(i) {
			continue
		}
		c.Case()
		host := "expiry-" + strconv.Itoa(hi) + ".test"
		var hist []string
		x := hi
		for k := 0; k < 4; k++ {
			hist = append(hist, evs[x%4])
			x /= 4
		}
		for step, ev := range hist {
			switch ev {
			case "+239h":
				vtime.Advance(239 * time.Hour)
			case "+2h":
				vtime.Advance(2 * time.Hour)
			default:
				target := host + ":" + ev[1:]
				t, cr := env.srv.OpenTunnel(target, env.tlsConfig(host))
				if t == nil {
					c.SetCase(strings.Join(hist, " "))
					c.Violation("C11/connect/history/no-valid-certificate", fmt.Sprintf("step %d of [%s]: CONNECT %s presented no certificate valid at the current time: status %d %s", step+1, strings.Join(hist, " "), target, cr.Status, cr.Err), nil)
					break
				}
				t.Close()
			}
		}
		c.Outcome("expiry-history:" + strings.Join(hist, ","))
	}
	for _, m := range malformed {
		i++
		if !c.Mine(i) {
			continue
		}
		c.Case()
		conn := env.srv.Dial()
		r := vnet.Exchange(conn, bufioConn(conn), "CONNECT "+m+" HTTP/1.1\r\nHost: "+m+"\r\n\r\n")
		conn.Close()
		c.Outcome(fmt.Sprintf("malformed:%d:%v", r.Status, r.Dropped))
		if r.Dropped || (r.Err != "" && r.Status == 0) {
			// net/http itself rejects some targets with 400 before the handler runs; a dropped
			// connection without any response is what C16 forbids.
			c.SetCase("CONNECT " + m)
			c.Violation("C16/connect/no-response/"+strconv.Quote(firstN(m, 20)), fmt.Sprintf("CONNECT %q: the client got no well-formed response: %s", firstN(m, 40), r.Err), nil)
		}
	}
	_ = net.IPv4zero
}

func firstN(s string, n int) string {
	if len(s) > n {
		return s[:n]
	}
	return s
}

func hostClass(h string) string {
	switch {
	case strings.HasPrefix(h, "["):
		return "ipv6"
	case net.ParseIP(h) != nil:
		return "ipv4"
	case strings.HasSuffix(h, "."):
		return "trailing-dot"
	case strings.ToLower(h) != h:
		return "upper-case"
	case strings.Contains(h, "_"):
		return "underscore"
	}
	return "dns"
}

func prefixOf(seq int, mode string) string { return "/s" + strconv.Itoa(seq) + mode }
