//go:build verif

package proxy

import (
	"fmt"
	"strings"

	"reservoir/zzverif/vnet"
	"reservoir/zzverif/vrun"
)

func init() { vrun.Register("proxy/odd-targets", scenarioOddTargets) }

// scenarioOddTargets (C16): unusual request lines and Host values, sent as raw bytes over plain
// HTTP and inside a CONNECT tunnel. Any well-formed response will do (net/http answers some of
// them 400 itself); a dropped connection or a handler panic will not.
func scenarioOddTargets(c *vrun.Ctx) {
	env := newEnv(envOpts{Backend: "memory", WithCA: true, Server: true})
	defer env.close()
	env.origin.Custom = nil
	long := strings.Repeat("a", 5000)
	lines := []string{
		"GET http://o.test HTTP/1.1", "GET http://o.test?q=1 HTTP/1.1", "HEAD http://o.test HTTP/1.1", "GET http://o.test:80 HTTP/1.1",
		"OPTIONS * HTTP/1.1", "GET / HTTP/1.1", "GET /x HTTP/1.1", "GET //o.test/x HTTP/1.1", "GET http:///x HTTP/1.1", "GET http://o.test/%zz HTTP/1.1",
		"GET http://o.test/.. HTTP/1.1", "GET http://o.test/../.. HTTP/1.1", "GET http://o.test/. HTTP/1.1", "GET http://o.test/? HTTP/1.1",
		"GET http://o.test/" + long + " HTTP/1.1", "GET http://o.test/a?" + long + " HTTP/1.1", "GET http://O.TEST/x HTTP/1.1", "GET http://[::1]/x HTTP/1.1",
		"GET x HTTP/1.1", "GET ? HTTP/1.1", "GET http://o.test/%00 HTTP/1.1", "GET http://o.test/%2F%2F HTTP/1.1", "GET http://o.test/%2e%2e/%2e%2e HTTP/1.1",
		"FOO http://o.test/x HTTP/1.1", "GET http://o.test/x HTTP/1.0", "get http://o.test/x HTTP/1.1", "GET ftp://o.test/x HTTP/1.1", "GET http://user:pw@o.test/x HTTP/1.1",
		"DELETE http://o.test HTTP/1.1", "POST http://o.test HTTP/1.1",
	}
	hosts := []string{"o.test", "", "O.TEST", "o.test:", "o.test:99999", "[::1]", "a b",
		// brackets, zones and percent signs in every order (net/http lets all of these through to the handler)
		"[::1]:80", "[::1%25lo]:80", "[fe80::1%eth0]:8080", "[::1]%x", "[::1]:80%", "[fe80::1]:8080%", "[::1]%25eth0", "[%]", "]%[", "[]", "[", "]", "%", "%25", "o.test%", "[::1]]", "[[::1]]", "[::1]:",
		"o.test:0", "o.test:-1", "o.test:80:80", ".", "..", "-", "o..test", strings.Repeat("a", 300) + ".test", "xn--", "1.2.3.4.5", "0x7f.1", "1.2.3.4:80", "[1.2.3.4]", "user@o.test", "o.test/path", "o.test?x", "o.test#f"}
	i := 0
	for _, l := range lines {
		for hi, h := range hosts {
			if hi > 0 && !strings.Contains(l, " / ") && !strings.Contains(l, " /x ") && !strings.Contains(l, "* ") {
				continue // Host variations only for origin-form and asterisk-form targets
			}
			for _, transport := range []string{"plain", "tunnel"} {
				i++
				if !c.Mine(i) {
					continue
				}
				c.Case()
				raw := l + "\r\nHost: " + h + "\r\nUser-Agent: vf\r\n\r\n"
				var r *vnet.Resp
				if transport == "plain" {
					r = env.srv.Do(raw)
				} else {
					t, cr := env.srv.OpenTunnel(originHost+":443", env.tlsConfig(originHost))
					if t == nil {
						r = cr
					} else {
						r = t.Do(raw)
						t.Close()
					}
				}
				c.Outcome(fmt.Sprintf("%s %d dropped=%v", transport, r.Status, r.Dropped))
				if r.Dropped || (r.Err != "" && r.Status == 0) {
					c.SetCase(transport + ": " + firstN(l, 60) + " Host=" + h)
					c.Violation("C16/odd-target/no-response/"+transport+"/"+targetShape(l), fmt.Sprintf("%s request %q (Host %q) got no well-formed response: %s", transport, firstN(l, 80), h, r.Err), nil)
				}
			}
		}
	}
	c.Sample(map[string]any{"request_line": "GET http://o.test HTTP/1.1", "expect": "some well-formed response"})
}

func targetShape(l string) string {
	f := strings.Fields(l)
	if len(f) < 2 {
		return "malformed-line"
	}
	t := f[1]
	switch {
	case t == "*":
		return "asterisk"
	case strings.HasPrefix(t, "http://") && !strings.Contains(strings.TrimPrefix(t, "http://"), "/"):
		return "absolute-form-without-path"
	case !strings.Contains(t, "/"):
		return "no-slash"
	case len(t) > 1000:
		return "very-long"
	case strings.Contains(t, "%"):
		return "percent"
	}
	return "other"
}
