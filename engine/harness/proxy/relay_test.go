//go:build verif

package proxy

import (
	"fmt"
	"net/http"
	"sort"
	"strconv"
	"strings"
	"time"

	"reservoir/zzverif/vnet"
	"reservoir/zzverif/vrun"
	"reservoir/zzverif/vtime"
)

func init() { vrun.Register("proxy/relay", scenarioRelay) }

// relayCase is one exchange shape: a base GET with 1-2 features applied.
type relayCase struct {
	method   string
	target   string // path+query as sent
	reqHdrs  vnet.H
	reqBody  string
	chunkReq bool
	status   int
	respHdrs vnet.H
	respSize int
	chunked  bool
	noValid  bool // origin sends no validators
	store    bool // cacheable: the exchange is repeated and the second answer (from the store) is judged too
	feats    []string
}

type feature struct {
	name  string
	group string // features of one group are mutually exclusive
	apply func(rc *relayCase)
}

var big70k = strings.Repeat("0123456789abcdef", 70*1024/16)

func relayFeatures() []feature {
	var fs []feature
	add := func(name, group string, f func(rc *relayCase)) { fs = append(fs, feature{name, group, f}) }
	for _, m := range []string{"HEAD", "POST", "PUT", "DELETE", "PATCH", "OPTIONS"} {
		m := m
		add("method="+m, "method", func(rc *relayCase) { rc.method = m })
	}
	for _, t := range []string{"/a%2Fb", "/a%20b", "/a;x=1", "/a?", "/a?x=1&y=2", "/a?y=2&x=1", "//dup//x", "/dot/./x", "/%61"} {
		t := t
		add("target="+t, "target", func(rc *relayCase) { rc.target = t })
	}
	hdr := func(name string, kv ...[2]string) {
		add("req-hdr="+name, "rh:"+name, func(rc *relayCase) { rc.reqHdrs = append(rc.reqHdrs, kv...) })
	}
	hdr("cookie-x2", [2]string{"Cookie", "a=1"}, [2]string{"Cookie", "b=2"})
	hdr("accept-x2", [2]string{"Accept", "text/html"}, [2]string{"Accept", "application/json;q=0.5"})
	hdr("odd-case", [2]string{"x-OdD-cAsE", "v1"})
	hdr("authorization", [2]string{"Authorization", "Bearer tok"})
	hdr("connection-nominated", [2]string{"Connection", "close, X-Hop"}, [2]string{"X-Hop", "1"})
	// the token in Connection is spelled as the peer likes (field names are case-insensitive)
	hdr("connection-nominated-lowercase", [2]string{"Connection", "x-low-hop"}, [2]string{"x-low-hop", "1"})
	hdr("connection-nominated-uppercase", [2]string{"Connection", "X-UP-HOP"}, [2]string{"X-Up-Hop", "1"})
	hdr("keep-alive", [2]string{"Keep-Alive", "timeout=5"})
	hdr("te", [2]string{"TE", "trailers"})
	hdr("upgrade", [2]string{"Upgrade", "h2c"})
	hdr("proxy-authorization", [2]string{"Proxy-Authorization", "Basic abc"})
	hdr("proxy-connection", [2]string{"Proxy-Connection", "keep-alive"})
	hdr("x-forwarded", [2]string{"X-Forwarded-For", "10.1.2.3"})
	add("req-body=1", "rb", func(rc *relayCase) { rc.reqBody = "x"; needsBodyMethod(rc) })
	add("req-body=chunked5", "rb", func(rc *relayCase) { rc.reqBody = "hello"; rc.chunkReq = true; needsBodyMethod(rc) })
	add("req-body=70k", "rb", func(rc *relayCase) { rc.reqBody = big70k; needsBodyMethod(rc) })
	// a GET may carry a body too; it reaches the origin like any other
	add("req-body=on-get", "rb", func(rc *relayCase) { rc.reqBody = "x" })
	// preconditions on requests that are not answered from the store belong to the client and the
	// origin: a guarded write must arrive guarded
	pre := func(name, method string, kv [2]string, body string) {
		add("precondition="+name, "method", func(rc *relayCase) {
			rc.method = method
			rc.reqHdrs = append(rc.reqHdrs, kv)
			if rc.reqBody == "" {
				rc.reqBody = body
			}
		})
	}
	pre("put-if-match", "PUT", [2]string{"If-Match", `"v7"`}, "new state")
	pre("put-if-none-match-star", "PUT", [2]string{"If-None-Match", "*"}, "create")
	pre("delete-if-unmodified-since", "DELETE", [2]string{"If-Unmodified-Since", "Sun, 06 Nov 1994 08:49:37 GMT"}, "")
	pre("post-if-match", "POST", [2]string{"If-Match", `"v7"`}, "append")
	pre("head-if-none-match", "HEAD", [2]string{"If-None-Match", `"v7"`}, "")
	for _, st := range []int{42, 201, 203, 204, 299, 301, 404, 416, 418, 500, 503, 599, 999} {
		st := st
		add("status="+strconv.Itoa(st), "status", func(rc *relayCase) {
			rc.status = st
			rc.store = false
			if st == 204 {
				rc.respSize = 0
			}
			if st == 301 {
				rc.respHdrs = append(rc.respHdrs, [2]string{"Location", "http://" + originHost + "/elsewhere"})
			}
		})
	}
	rhdr := func(name string, kv ...[2]string) {
		add("resp-hdr="+name, "sh:"+name, func(rc *relayCase) { rc.respHdrs = append(rc.respHdrs, kv...) })
	}
	rhdr("set-cookie-x3", [2]string{"Set-Cookie", "a=1; Path=/"}, [2]string{"Set-Cookie", "b=2"}, [2]string{"Set-Cookie", "c=3; HttpOnly"})
	rhdr("link-x2", [2]string{"Link", "</a>; rel=prev"}, [2]string{"Link", "</b>; rel=next"})
	rhdr("vary-x2", [2]string{"Vary", "Accept"}, [2]string{"Vary", "Accept-Language"})
	rhdr("connection-nominated", [2]string{"Connection", "X-Resp-Hop"}, [2]string{"X-Resp-Hop", "v"})
	rhdr("connection-nominated-lowercase", [2]string{"Connection", "x-resp-low"}, [2]string{"X-Resp-Low", "v"})
	rhdr("keep-alive", [2]string{"Keep-Alive", "timeout=9"})
	rhdr("proxy-authenticate", [2]string{"Proxy-Authenticate", "Basic realm=x"})
	rhdr("custom", [2]string{"X-Custom-Thing", "some value"}, [2]string{"Content-Language", "da"})
	rhdr("content-type", [2]string{"Content-Type", "application/x-verif; charset=x"})
	rhdr("accept-ranges-none", [2]string{"Accept-Ranges", "none"})
	rhdr("empty-value", [2]string{"X-Empty", ""})
	add("resp-no-validators", "valid", func(rc *relayCase) { rc.noValid = true })
	add("resp-body=empty", "sb", func(rc *relayCase) { rc.respSize = 0 })
	add("resp-body=chunked", "sb", func(rc *relayCase) { rc.chunked = true })
	add("resp-body=70k", "sb", func(rc *relayCase) { rc.respSize = 70 * 1024 })
	add("uncacheable", "cc", func(rc *relayCase) { rc.store = false })
	return fs
}

func needsBodyMethod(rc *relayCase) {
	if rc.method == "GET" || rc.method == "HEAD" {
		rc.method = "POST"
	}
}

var hopByHop = map[string]bool{"Connection": true, "Proxy-Connection": true, "Keep-Alive": true, "Proxy-Authenticate": true, "Proxy-Authorization": true, "Te": true, "Trailer": true, "Transfer-Encoding": true, "Upgrade": true}

// endToEnd returns the header multimap restricted to end-to-end fields (hop-by-hop and
// Connection-nominated removed), as "Name: v1 | v2" lines.
func endToEnd(h http.Header, skip map[string]bool) []string {
	nominated := map[string]bool{}
	for _, v := range h.Values("Connection") {
		for _, t := range strings.Split(v, ",") {
			nominated[http.CanonicalHeaderKey(strings.TrimSpace(t))] = true
		}
	}
	var out []string
	for k, vs := range h {
		if hopByHop[k] || nominated[k] || skip[k] {
			continue
		}
		out = append(out, k+": "+strings.Join(vs, " | "))
	}
	sort.Strings(out)
	return out
}

func buildRaw(rc *relayCase, absolute bool) string {
	var b strings.Builder
	if absolute {
		b.WriteString(rc.method + " http://" + originHost + rc.target + " HTTP/1.1\r\n")
	} else {
		b.WriteString(rc.method + " " + rc.target + " HTTP/1.1\r\n")
	}
	b.WriteString("Host: " + originHost + "\r\nUser-Agent: vf\r\nAccept-Encoding: identity\r\n")
	for _, kv := range rc.reqHdrs {
		b.WriteString(kv[0] + ": " + kv[1] + "\r\n")
	}
	if rc.reqBody != "" {
		if rc.chunkReq {
			b.WriteString("Transfer-Encoding: chunked\r\n\r\n")
			b.WriteString(strconv.FormatInt(int64(len(rc.reqBody)), 16) + "\r\n" + rc.reqBody + "\r\n0\r\n\r\n")
			return b.String()
		}
		b.WriteString("Content-Length: " + strconv.Itoa(len(rc.reqBody)) + "\r\n")
	}
	b.WriteString("\r\n" + rc.reqBody)
	return b.String()
}

var proxyOwnedResp = map[string]bool{"Via": true, "Age": true, "X-Cache": true, "Cache-Status": true, "Accept-Ranges": true, "Date": true, "Content-Length": true, "X-Verif-Transfer-Encoding": true}
var clientFraming = map[string]bool{"Host": true, "Content-Length": true, "X-Verif-Transfer-Encoding": true}

// judgeRelay runs one exchange shape through send and compares both directions.
func judgeRelay(c *vrun.Ctx, origin *vnet.Origin, send func(raw string) *vnet.Resp, transport string, absolute bool, rc relayCase, seq int) {
	name := "y" + strconv.Itoa(seq)
	uri := rc.target
	if strings.HasSuffix(uri, "?") {
		uri = strings.TrimSuffix(uri, "?") // an empty query is not distinguishable after parsing; either form is accepted below
	}
	res := &vnet.Res{Name: name, Size: rc.respSize, Status: rc.status, Chunked: rc.chunked, Headers: append(vnet.H{}, rc.respHdrs...), NoConditionals: true}
	if !rc.noValid {
		res.ETag = vnet.ETagFor(name, 1)
	}
	if rc.store {
		res.Headers = append(res.Headers, [2]string{"Cache-Control", "max-age=600"})
	} else {
		res.Headers = append(res.Headers, [2]string{"Cache-Control", "no-store"})
	}
	origin.Put(uri, res)
	origin.Put(rc.target, res)
	desc := transport + " " + strings.Join(rc.feats, " + ")
	report := func(kind, msg string) {
		c.SetCase(desc)
		c.Violation("C08/relay/"+kind, msg+" | "+desc, nil)
	}
	rounds := 1
	if rc.store && rc.method == "GET" {
		// second answer comes from the store; for the third the entry has gone stale and the origin
		// has moved on to a version that must not be stored: the proxy revalidates, cannot keep the
		// answer and fetches again on the client's behalf
		rounds = 3
	}
	version := 1
	raw := buildRaw(&rc, absolute)
	clientReq, _ := http.ReadRequest(bufioReader(raw))
	for round := 0; round < rounds; round++ {
		if round == 2 {
			vtime.Advance(601 * time.Second)
			origin.Bump(uri)
			version = 2
			for i := range res.Headers {
				if res.Headers[i][0] == "Cache-Control" && res.Headers[i][1] == "max-age=600" {
					res.Headers[i][1] = "no-store"
				}
			}
		}
		before := len(origin.Log)
		resp := send(raw)
		reqs := origin.Log[before:]
		where := "relayed"
		if round == 1 {
			where = "from-store"
		}
		if round == 2 {
			where = "stale-then-unstorable"
			// every upstream request made for this exchange carries the client's end-to-end headers;
			// only the revalidation (the first) may add the stored validators, which are the proxy's own
			for i, rq := range reqs {
				skip := map[string]bool{}
				for k := range clientFraming {
					skip[k] = true
				}
				if i == 0 {
					skip["If-None-Match"], skip["If-Modified-Since"] = true, true
				}
				want := endToEnd(clientReq.Header, skip)
				got := endToEnd(rq.Header, skip)
				if dk := diffKey(want, got); dk != "" {
					report("request-headers/"+where+"/"+dk, fmt.Sprintf("upstream request %d of %d after a revalidation that could not be kept: end-to-end request headers differ: client sent %v, origin received %v", i+1, len(reqs), want, got))
				}
				// a header that makes the request conditional or partial changes what is being asked for:
				// the origin must not receive one the client did not send (the revalidation excepted)
				for _, k := range []string{"If-None-Match", "If-Modified-Since", "If-Match", "If-Unmodified-Since", "If-Range", "Range"} {
					if !skip[k] && rq.Header.Get(k) != "" && clientReq.Header.Get(k) == "" {
						report("request-headers/"+where+"/added:"+k, fmt.Sprintf("upstream request %d of %d, made on the client's behalf after a revalidation that could not be kept, carries %s: %s, which the client never sent", i+1, len(reqs), k, rq.Header.Get(k)))
					}
				}
			}
		}
		if resp.Err != "" || resp.Dropped {
			report("no-response/"+where+"/"+featKey(rc), fmt.Sprintf("%s: status %d: %s", where, resp.Status, resp.Err))
			c.Violation("C16/relay/no-response/"+featKey(rc), "no well-formed response ("+resp.Err+") for "+desc, nil)
			return
		}
		// ---- request direction ----
		if round == 0 {
			// (How many upstream requests one client request causes is not a fidelity matter: an
			// uncacheable answer is fetched twice by design. Every one of them must be faithful.)
			if len(reqs) == 0 {
				report("request-not-forwarded", "the origin received nothing")
				return
			}
			rq := reqs[len(reqs)-1]
			if rq.Method != rc.method {
				report("method-changed", fmt.Sprintf("client sent %s, origin received %s", rc.method, rq.Method))
			}
			if rq.URI != rc.target && rq.URI != strings.TrimSuffix(rc.target, "?") {
				report("target-changed/"+targetClass(rc.target), fmt.Sprintf("client sent %q, origin received %q", rc.target, rq.URI))
				return // the scripted resource was not addressed: nothing else to compare
			}
			if rq.Body != rc.reqBody {
				report("request-body-changed", fmt.Sprintf("client sent %d body bytes, origin received %d", len(rc.reqBody), len(rq.Body)))
			}
			want := endToEnd(clientReq.Header, clientFraming)
			got := endToEnd(rq.Header, clientFraming)
			if dk := diffKey(want, got); dk != "" {
				report("request-headers/"+dk, fmt.Sprintf("end-to-end request headers differ: sent %v, origin received %v", want, got))
			}
			for k := range rq.Header {
				if hopByHop[k] {
					report("hop-by-hop-forwarded/"+k, "origin received hop-by-hop header "+k)
				}
			}
			for _, tok := range connectionTokens(clientReq.Header) {
				if _, got := rq.Header[tok]; got {
					report("connection-nominated-forwarded", "origin received "+tok+" although the client's Connection header names it")
				}
			}
		} else if len(reqs) != 0 && round == 1 {
			// not from the store after all (e.g. not storable): still judged as a relayed answer
			where = "relayed-again"
		}
		if rc.status > 0 && rc.status < 100 {
			// net/http cannot put such a status on the wire: the proxy has to answer with an error of
			// its own (the client must not be left without a response, which is checked above)
			if resp.Status < 500 && resp.Status != rc.status {
				// (the hand-written responder of the tunnel can put the code on the wire as it is: faithful too)
				report("unrelayable-status-not-an-error/"+where, fmt.Sprintf("origin answered with status %03d, client received %d", rc.status, resp.Status))
			}
			continue
		}
		// ---- response direction ----
		wantStatus := rc.status
		if wantStatus == 0 {
			wantStatus = 200
		}
		if resp.Status != wantStatus {
			report("status-changed/"+where, fmt.Sprintf("origin answered %d, client received %d", wantStatus, resp.Status))
		}
		wantBody := ""
		if rc.method != "HEAD" && wantStatus != 204 {
			wantBody = string(vnet.Body(name, version, rc.respSize))
		}
		if resp.Body != wantBody {
			report("response-body-changed/"+where, fmt.Sprintf("origin sent %d body bytes, client received %d", len(wantBody), len(resp.Body)))
		}
		originHdr := res.Headers.ToHeader()
		if res.ETag != "" {
			originHdr.Set("ETag", res.ETag)
		}
		skip := map[string]bool{}
		for k := range proxyOwnedResp {
			skip[k] = true
		}
		if res.ETag == "" {
			skip["Etag"] = true
		}
		skip["Last-Modified"] = true // the origin sends none in these cases; the proxy may add one
		want := endToEnd(originHdr, skip)
		got := endToEnd(resp.Header, skip)
		if dk := diffKey(want, got); dk != "" {
			report("response-headers/"+where+"/"+dk, fmt.Sprintf("%s: end-to-end response headers differ: origin sent %v, client received %v", where, want, got))
		}
		for k := range resp.Header {
			if hopByHop[k] && k != "Connection" && k != "Transfer-Encoding" {
				report("hop-by-hop-relayed/"+k, where+": client received the origin's hop-by-hop header "+k)
			}
		}
		for _, tok := range connectionTokens(originHdr) {
			if _, got := resp.Header[tok]; got {
				report("connection-nominated-relayed", where+": client received "+tok+" although the origin's Connection header names it")
			}
		}
	}
	c.Outcome(transport + ":" + strings.Join(rc.feats, "+"))
}

func featKey(rc relayCase) string { return strings.Join(rc.feats, "+") }

func targetClass(t string) string {
	switch {
	case strings.Contains(t, "%2F"):
		return "encoded-slash"
	case strings.Contains(t, "%"):
		return "percent-encoding"
	case strings.Contains(t, "//"):
		return "double-slash"
	case strings.Contains(t, "/./"):
		return "dot-segment"
	case strings.Contains(t, ";"):
		return "semicolon"
	}
	return "other"
}

// diffKey names the header fields that differ.
func diffKey(want, got []string) string {
	w, g := map[string]string{}, map[string]string{}
	for _, l := range want {
		k, v, _ := strings.Cut(l, ": ")
		w[k] = v
	}
	for _, l := range got {
		k, v, _ := strings.Cut(l, ": ")
		g[k] = v
	}
	var ks []string
	for k, v := range w {
		if gv, ok := g[k]; !ok {
			ks = append(ks, "missing:"+k)
		} else if gv != v {
			if strings.Contains(v, " | ") && !strings.Contains(gv, " | ") {
				ks = append(ks, "values-collapsed:"+k)
			} else {
				ks = append(ks, "changed:"+k)
			}
		}
	}
	// Fields the receiver has but the sender did not send are not a fidelity violation (the
	// statement requires every header that was sent to arrive; net/http itself adds a sniffed
	// Content-Type): they are ignored, except hop-by-hop fields, which are checked separately.
	sort.Strings(ks)
	return strings.Join(ks, ",")
}

// relayCases enumerates every single feature and every compatible pair.
func relayCases() []relayCase {
	fs := relayFeatures()
	base := func() relayCase {
		return relayCase{method: "GET", target: "/p", status: 0, respSize: 24, store: true}
	}
	var out []relayCase
	rc := base()
	rc.feats = []string{"base"}
	out = append(out, rc)
	for i := range fs {
		rc := base()
		fs[i].apply(&rc)
		rc.feats = []string{fs[i].name}
		out = append(out, rc)
		for j := i + 1; j < len(fs); j++ {
			if fs[i].group == fs[j].group {
				continue
			}
			rc := base()
			fs[i].apply(&rc)
			fs[j].apply(&rc)
			rc.feats = []string{fs[i].name, fs[j].name}
			out = append(out, rc)
		}
	}
	return out
}

func scenarioRelay(c *vrun.Ctx) {
	var p struct {
		Backend string `json:"backend"`
	}
	c.Params(&p)
	env := newEnv(envOpts{Backend: p.Backend, Server: true})
	defer env.close()
	cases := relayCases()
	for i, rc := range cases {
		if !c.Mine(i) {
			continue
		}
		if c.Expired() {
			return
		}
		c.Case()
		env.seq++
		// a distinct target per case keeps the cache entries apart
		rc.target = "/c" + strconv.Itoa(env.seq) + rc.target
		judgeRelay(c, env.origin, env.srv.Do, "plain", true, rc, env.seq)
		if i%97 == 0 {
			c.Sample(map[string]any{"transport": "plain", "features": rc.feats, "request_line": rc.method + " " + rc.target})
		}
	}
	c.Res.Bounds["features"] = len(relayFeatures())
	c.Res.Bounds["cases_single_and_pairs"] = len(cases)
}

// connectionTokens returns the field names a Connection header nominates (canonical spelling; the
// connection options close / keep-alive are not field names).
func connectionTokens(h http.Header) []string {
	var out []string
	for _, v := range h.Values("Connection") {
		for _, t := range strings.Split(v, ",") {
			t = http.CanonicalHeaderKey(strings.TrimSpace(t))
			if t != "" && t != "Close" && t != "Keep-Alive" {
				out = append(out, t)
			}
		}
	}
	return out
}
