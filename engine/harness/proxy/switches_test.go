//go:build verif

package proxy

import (
	"fmt"
	"strings"
	"time"

	"reservoir/config"
	"reservoir/zzverif/vnet"
	"reservoir/zzverif/vrun"
	"reservoir/zzverif/vsched"
	"reservoir/zzverif/vtime"
)

func init() { vrun.Register("proxy/switches", scenarioSwitches) }

// scenarioSwitches (C19): the request path follows the most recent value of every
// cache-policy / retry switch. For each switch: histories set v; probe; set v'; probe; ...
// where the probe's observable outcome differs between the two values.
func scenarioSwitches(c *vrun.Ctx) {
	type sw struct {
		name  string
		doc   func(v bool) map[string]any
		probe func(e *penv) string // returns an observation that must be a function of the switch value
		want  func(v bool) string
	}
	section := func(path string, v any) map[string]any {
		parts := strings.Split(path, ".")
		out := map[string]any{}
		m := out
		for _, p := range parts[:len(parts)-1] {
			n := map[string]any{}
			m[p] = n
			m = n
		}
		m[parts[len(parts)-1]] = v
		return out
	}
	switches := []sw{
		{"proxy.cache_policy.ignore_cache_control",
			func(v bool) map[string]any { return section("proxy.cache_policy.ignore_cache_control", v) },
			func(e *penv) string {
				uri := e.uniq("s")
				e.origin.Put(uri, &vnet.Res{Name: "s", Size: 20, Headers: vnet.H{{"Cache-Control", "no-store"}}})
				e.do("GET", uri, nil, "")
				_, reqs := e.do("GET", uri, nil, "")
				return fmt.Sprintf("second-request-contacts-origin=%v", len(reqs) > 0)
			},
			func(v bool) string { return fmt.Sprintf("second-request-contacts-origin=%v", !v) }},
		{"proxy.cache_policy.force_default_max_age",
			func(v bool) map[string]any { return section("proxy.cache_policy.force_default_max_age", v) },
			func(e *penv) string {
				uri := e.uniq("s")
				e.origin.Put(uri, &vnet.Res{Name: "s", Size: 20, Headers: vnet.H{{"Cache-Control", "max-age=5"}}})
				e.do("GET", uri, nil, "")
				vtime.Advance(10 * time.Second)
				_, reqs := e.do("GET", uri, nil, "")
				return fmt.Sprintf("contact-after-10s=%v", len(reqs) > 0)
			},
			func(v bool) string { return fmt.Sprintf("contact-after-10s=%v", !v) }},
		{"proxy.retry_on_invalid_range",
			func(v bool) map[string]any { return section("proxy.retry_on_invalid_range", v) },
			func(e *penv) string {
				uri := e.uniq("s")
				e.origin.Put(uri, &vnet.Res{Name: "s", Size: 20, Headers: vnet.H{{"Cache-Control", "max-age=500"}}})
				e.do("GET", uri, nil, "")
				r, _ := e.do("GET", uri, vnet.H{{"Range", "bytes=100-200"}}, "")
				return fmt.Sprintf("status=%d", r.Status)
			},
			func(v bool) string {
				if v {
					return "status=200"
				}
				return "status=416"
			}},
		{"proxy.retry_on_range_416",
			func(v bool) map[string]any { return section("proxy.retry_on_range_416", v) },
			func(e *penv) string {
				uri := e.uniq("s")
				e.origin.Put(uri, &vnet.Res{Name: "s", Size: 20, SupportsRange: true, Headers: vnet.H{{"Cache-Control", "no-store"}}})
				r, reqs := e.do("GET", uri, vnet.H{{"Range", "bytes=100-200"}}, "")
				return fmt.Sprintf("status=%d upstream-requests=%d", r.Status, len(reqs))
			},
			func(v bool) string {
				if v {
					return "status=200 upstream-requests=2"
				}
				return "status=416 upstream-requests=1"
			}},
		{"proxy.upstream_default_https",
			func(v bool) map[string]any { return section("proxy.upstream_default_https", v) },
			func(e *penv) string {
				uri := e.uniq("s")
				e.origin.Put(uri, &vnet.Res{Name: "s", Size: 20, Headers: vnet.H{{"Cache-Control", "no-store"}}})
				_, reqs := e.do("GET", uri, nil, "")
				if len(reqs) == 0 {
					return "no-upstream-request"
				}
				return "scheme=" + reqs[0].Scheme
			},
			func(v bool) string {
				if v {
					return "scheme=https"
				}
				return "scheme=http"
			}},
	}
	hists := [][]bool{{true}, {false}, {true, false}, {false, true}, {true, false, true}, {false, true, false}, {true, true, false}, {false, false, true}}
	caseNo := 0
	for _, be := range []string{"memory", "file"} {
		for _, s := range switches {
			for _, h := range hists {
				caseNo++
				if !c.Mine(caseNo) {
					continue
				}
				c.Case()
				var problem string
				ex := vsched.Run(vsched.Config{Horizon: 500000}, func() {
					vtime.Reset()
					env := newEnv(envOpts{Backend: be, Plain: true, DefaultMaxAgeS: 1000, Shards: 32})
					defer env.close()
					for step, v := range h {
						if _, err := config.UpdatePartialFromConfig(env.cfg, s.doc(v)); err != nil {
							problem = fmt.Sprintf("step %d: setting %s=%v was rejected: %v", step, s.name, v, err)
							return
						}
						vsched.Quiesce()
						if got, want := s.probe(env), s.want(v); got != want {
							problem = fmt.Sprintf("step %d: after setting %s=%v the request path behaves as %q, expected %q", step, s.name, v, got, want)
							return
						}
					}
				})
				if ex.Status != "complete" && problem == "" {
					problem = ex.Status + ": " + ex.Detail + ex.PanicVal
				}
				c.Outcome(fmt.Sprintf("%s %v", s.name, h))
				if problem != "" {
					c.SetCase(fmt.Sprintf("%s %v %s", s.name, h, be))
					c.Violation("C19/switches/request-path-ignores-setting/"+s.name, problem+fmt.Sprintf(" | history %v backend %s", h, be), nil)
					// the same observation under the property whose behaviour the switch selects ("under every
					// cache_policy configuration, at any point of a request history")
					if own := map[string]string{"proxy.cache_policy.ignore_cache_control": "C04", "proxy.cache_policy.force_default_max_age": "C03", "proxy.retry_on_invalid_range": "C07"}[s.name]; own != "" {
						c.Violation(own+"/switches/behaviour-of-the-other-setting/"+s.name, problem+fmt.Sprintf(" | history %v backend %s", h, be), nil)
					}
				}
			}
		}
	}
	c.Sample(map[string]any{"switch": "proxy.retry_on_range_416", "history": []bool{true, false}, "probe": "Range request answered 416 by the origin"})
}
