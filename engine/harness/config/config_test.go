//go:build verif

package config

import (
	"encoding/json"
	"fmt"
	"os"
	"reflect"
	"sort"
	"strings"
	"testing"

	"reservoir/zzverif/vos"
	"reservoir/zzverif/vrun"
	"reservoir/zzverif/vsched"
)

func TestVF(t *testing.T) { vrun.Main(t) }

func init() {
	vrun.Register("config/roundtrip", scenarioRoundTrip)
	vrun.Register("config/override", scenarioOverride)
	vrun.Register("config/update", scenarioUpdate)
	vrun.Register("config/persist-faults", scenarioPersistFaults)
	vrun.Register("config/listener-sched", scenarioListenerSched)
}

// snapshot reads every property through Read(), keyed by its JSON path.
func snapshot(cfg *Config) map[string]string {
	out := map[string]string{}
	var walk func(v reflect.Value, prefix string)
	walk = func(v reflect.Value, prefix string) {
		t := v.Type()
		for i := 0; i < v.NumField(); i++ {
			f := v.Field(i)
			tag, _ := t.Field(i).Tag.Lookup("json")
			name := prefix + tag
			if strings.HasPrefix(f.Type().Name(), "ConfigProp[") {
				r := f.Addr().MethodByName("Read").Call(nil)[0]
				out[name] = exact(r)
				continue
			}
			if f.Kind() == reflect.Struct {
				walk(f, name+".")
			}
		}
	}
	walk(reflect.ValueOf(cfg).Elem(), "")
	return out
}

// exact renders a value without going through its (possibly lossy) String method.
func exact(r reflect.Value) string {
	switch r.Kind() {
	case reflect.Int, reflect.Int8, reflect.Int16, reflect.Int32, reflect.Int64:
		return fmt.Sprintf("%d", r.Int())
	case reflect.Bool:
		return fmt.Sprintf("%v", r.Bool())
	case reflect.String:
		return r.String()
	}
	return fmt.Sprintf("%v", r.Interface())
}

func diffSnap(a, b map[string]string) []string {
	var d []string
	for k, v := range a {
		if b[k] != v {
			d = append(d, fmt.Sprintf("%s: %s -> %s", k, v, b[k]))
		}
	}
	sort.Strings(d)
	return d
}

// doc builds the nested update document {"a":{"b":v}} from a dotted path.
func doc(kv ...any) map[string]any {
	out := map[string]any{}
	for i := 0; i+1 < len(kv); i += 2 {
		parts := strings.Split(kv[i].(string), ".")
		m := out
		for _, p := range parts[:len(parts)-1] {
			n, ok := m[p].(map[string]any)
			if !ok {
				n = map[string]any{}
				m[p] = n
			}
			m = n
		}
		m[parts[len(parts)-1]] = kv[i+1]
	}
	return out
}

type fieldVals struct {
	path string
	vals []any
}

// boundary and ordinary valid values per property (JSON forms)
var validValues = []fieldVals{
	{"cache.max_cache_size", []any{"1B", "1023B", "1K", "1536B", "1500K", "10G", "1025M", "5000000B", "3T"}},
	{"cache.cleanup_interval", []any{"1ns", "999µs", "1.5s", "90m", "1h0m0.000000001s", "2562047h"}},
	{"proxy.cache_policy.default_max_age", []any{"0s", "1s", "1h", "90m0.5s"}},
	{"cache.memory.memory_budget_percent", []any{1, 75, 100}},
	{"cache.lock_shards", []any{1, 32, 1024}},
	{"cache.type", []any{"memory", "file"}},
	{"cache.file.dir", []any{"var/cache/", "x"}},
	{"logging.level", []any{"DEBUG", "INFO", "WARN", "ERROR", "INFO+2", "DEBUG-4", "ERROR+4"}},
	{"logging.max_size", []any{"1M", "500M", "1536K", "1B"}},
	{"logging.max_backups", []any{0, 3}},
	{"logging.compress", []any{true, false}},
	{"logging.to_stdout", []any{true, false}},
	{"logging.file", []any{"", "var/proxy.log"}},
	{"proxy.listen", []any{":1", "localhost:9999"}},
	{"proxy.upstream_default_https", []any{true, false}},
	{"proxy.retry_on_range_416", []any{true, false}},
	{"proxy.retry_on_invalid_range", []any{true, false}},
	{"proxy.cache_policy.ignore_cache_control", []any{true, false}},
	{"proxy.cache_policy.force_default_max_age", []any{true, false}},
	{"webserver.listen", []any{"localhost:8080", ":0"}},
	{"webserver.dashboard_disabled", []any{true, false}},
	{"webserver.api_disabled", []any{true, false}},
	{"proxy.ca_cert", []any{"ssl/ca.crt", "x.crt"}},
	{"proxy.ca_key", []any{"ssl/ca.key", "x.key"}},
}

func freshConfig() *Config {
	restartNeeded.Store(false)
	os.MkdirAll("var", 0o755)
	os.Remove(configPath.Path)
	cfg := NewDefault()
	if err := cfg.persist(); err != nil {
		panic(err)
	}
	return cfg
}

// run executes f as the main thread under the scheduler with the default schedule, so
// that the notifier goroutines of config changes run deterministically.
func run(f func()) *vsched.Exec {
	return vsched.Run(vsched.Config{Horizon: 200000}, f)
}

// scenarioRoundTrip (C17): save -> load -> Read of all properties equal, for the defaults
// with every property at each of its values (one deviation) and all pairs.
func scenarioRoundTrip(c *vrun.Ctx) {
	caseNo := 0
	tryDoc := func(d map[string]any, desc string) {
		caseNo++
		if !c.Mine(caseNo) {
			return
		}
		c.Case()
		var problem, kind string
		ex := run(func() {
			cfg := freshConfig()
			st, err := UpdatePartialFromConfig(cfg, d)
			vsched.Quiesce()
			if apiOffDashboardOn(d) {
				// the one combination of table values under which the process cannot start (main.startWebServer
				// refuses it): it has to be rejected; C18's main/startup scenario judges the start itself
				if err == nil && st != UpdateStatusFailed {
					problem, kind = "webserver.api_disabled=true was accepted while the dashboard is enabled: the next start panics", "unworkable-config-accepted/webserver.api_disabled"
				}
				return
			}
			if err != nil || st == UpdateStatusFailed {
				problem, kind = fmt.Sprintf("a valid configuration was rejected: %v", err), "valid-config-rejected/"+firstKey(desc)
				return
			}
			before := snapshot(cfg)
			loaded, err := load(configPath.Path)
			if err != nil {
				problem, kind = fmt.Sprintf("the saved file does not load: %v", err), "saved-file-does-not-load/"+firstKey(desc)
				return
			}
			if d := diffSnap(before, snapshot(loaded)); len(d) > 0 {
				problem, kind = "settings differ after save+load: "+strings.Join(d, "; "), "round-trip-changes-settings/"+changedKeys(d)
			}
		})
		if ex.Status != "complete" {
			problem, kind = ex.Status+": "+ex.Detail+ex.PanicVal, "abort/"+ex.Status
		}
		c.Outcome(firstKey(desc))
		if problem != "" {
			c.SetCase(desc)
			c.Violation("C17/roundtrip/"+kind, problem+" | update "+desc, nil)
		}
	}
	for i, f := range validValues {
		for _, v := range f.vals {
			tryDoc(doc(f.path, v), fmt.Sprintf("%s=%v", f.path, v))
			for _, g := range validValues[i+1:] {
				for _, w := range g.vals {
					tryDoc(doc(f.path, v, g.path, w), fmt.Sprintf("%s=%v %s=%v", f.path, v, g.path, w))
				}
			}
		}
	}
	c.Res.Bounds["properties"] = len(validValues)
	c.Sample(map[string]any{"update": "cache.max_cache_size=1536B", "check": "Read() of all 24 properties before save == after load"})
}

func firstKey(desc string) string {
	k, _, _ := strings.Cut(desc, "=")
	return k
}

func changedKeys(d []string) string {
	var ks []string
	for _, l := range d {
		k, _, _ := strings.Cut(l, ":")
		ks = append(ks, k)
	}
	return strings.Join(ks, ",")
}

// scenarioOverride (C17): CLI overrides win, also after later API updates, but are never saved.
func scenarioOverride(c *vrun.Ctx) {
	var p struct {
		Depth int `json:"depth"`
	}
	c.Params(&p)
	type prop struct {
		path      string
		cli, api  []any
		overwrite func(cfg *Config, v any)
		listen    func(cfg *Config, log *[]string)
	}
	props := []prop{
		{"logging.level", []any{"ERROR"}, []any{"DEBUG", "WARN"}, nil, nil},
		{"proxy.listen", []any{":7777"}, []any{":1111", ":2222"}, nil, nil},
		{"logging.max_size", []any{"7M"}, []any{"1M", "2M"}, nil, nil},
	}
	caseNo := 0
	for _, pr := range props {
		// cliCur: the command line names the value that is in effect anyway (the default, the file's
		// value or what an API update just set): it is still a command-line value and must keep winning
		// apiBad: an API update that gives the property a value verification refuses ("" for a listen
		// address). It must be refused also while a command-line value hides it from the running process:
		// the file would otherwise hold a configuration the next start cannot load.
		events := []string{"cli0", "cliCur", "api0", "api1", "restart"}
		if pr.path == "proxy.listen" {
			events = append(events, "apiBad")
		}
		n := len(events)
		total := 1
		for i := 0; i < p.Depth; i++ {
			total *= n
		}
		for hi := 0; hi < total; hi++ {
			caseNo++
			if !c.Mine(caseNo) {
				continue
			}
			hist := make([]string, p.Depth)
			x := hi
			for i := p.Depth - 1; i >= 0; i-- {
				hist[i] = events[x%n]
				x /= n
			}
			c.Case()
			var problem, kind string
			ex := run(func() {
				cfg := freshConfig()
				var delivered []string
				attach := func(cfg *Config) {
					f := lookup(cfg, pr.path)
					cb := reflect.MakeFunc(f.Addr().MethodByName("OnChange").Type().In(0), func(args []reflect.Value) []reflect.Value {
						delivered = append(delivered, exact(args[0]))
						return nil
					})
					f.Addr().MethodByName("OnChange").Call([]reflect.Value{cb})
				}
				attach(cfg)
				cliActive := false
				cliVal, fileVal := "", snapshot(cfg)[pr.path]
				for step, ev := range hist {
					switch ev {
					case "cli0":
						v := decodeAs(cfg, pr.path, pr.cli[0])
						lookup(cfg, pr.path).Addr().MethodByName("Overwrite").Call([]reflect.Value{v})
						cliActive, cliVal = true, exact(v)
					case "cliCur":
						v := lookup(cfg, pr.path).Addr().MethodByName("Read").Call(nil)[0]
						lookup(cfg, pr.path).Addr().MethodByName("Overwrite").Call([]reflect.Value{v})
						cliActive, cliVal = true, exact(v)
					case "apiBad":
						st, err := UpdatePartialFromConfig(cfg, doc(pr.path, ""))
						if err == nil && st != UpdateStatusFailed {
							problem, kind = fmt.Sprintf("step %d: the update %s=\"\" was accepted (command-line value active: %v)", step, pr.path, cliActive), "invalid-value-accepted"
							if _, lerr := load(configPath.Path); lerr != nil {
								problem += fmt.Sprintf("; the file it wrote does not load: %v", lerr)
							}
							return
						}
					case "api0", "api1":
						v := pr.api[int(ev[3]-'0')]
						if _, err := UpdatePartialFromConfig(cfg, doc(pr.path, v)); err != nil {
							problem, kind = fmt.Sprintf("step %d: API update failed: %v", step, err), "api-update-failed"
							return
						}
						fileVal = exact(decodeAs(cfg, pr.path, v))
					case "restart":
						// a restart without flags: the file rules
						loaded, err := load(configPath.Path)
						if err != nil {
							problem, kind = fmt.Sprintf("step %d: saved file does not load: %v", step, err), "file-does-not-load"
							return
						}
						cfg = loaded
						delivered = nil
						attach(cfg)
						cliActive = false
					}
					vsched.Quiesce()
					want := fileVal
					if cliActive {
						want = cliVal
					}
					if got := snapshot(cfg)[pr.path]; got != want {
						problem, kind = fmt.Sprintf("step %d (%s): Read() = %s, expected %s (command-line value active: %v)", step, ev, got, want, cliActive), "effective-value-wrong"
						return
					}
					if len(delivered) > 0 && delivered[len(delivered)-1] != want {
						problem, kind = fmt.Sprintf("step %d (%s): the component was last notified with %s but the effective setting is %s", step, ev, delivered[len(delivered)-1], want), "component-follows-overridden-value"
						return
					}
					// the file never contains the command-line value
					if onDisk, err := load(configPath.Path); err != nil {
						problem, kind = fmt.Sprintf("step %d (%s): the configuration file no longer loads: %v", step, ev, err), "file-does-not-load"
						return
					} else {
						if got := snapshot(onDisk)[pr.path]; got != fileVal {
							problem, kind = fmt.Sprintf("step %d (%s): the file holds %s, expected %s", step, ev, got, fileVal), "file-holds-wrong-value"
							return
						}
					}
				}
			})
			if ex.Status != "complete" && problem == "" {
				problem, kind = ex.Status+": "+ex.Detail+ex.PanicVal, "abort"
			}
			c.Outcome(pr.path + ":" + strings.Join(hist, ","))
			if problem != "" {
				c.SetCase(pr.path + " " + strings.Join(hist, " "))
				c.Violation("C17/override/"+kind+"/"+pr.path, problem+" | history "+strings.Join(hist, " "), nil)
				if kind == "file-holds-wrong-value" || kind == "file-does-not-load" {
					// the same observation read as C18: what an accepted update saves is what the next start loads,
					// i.e. the saved values and nothing that only the command line said
					c.Violation("C18/override/"+kind+"/"+pr.path, problem+" | history "+strings.Join(hist, " "), nil)
				}
			}
		}
	}
	c.Res.Bounds["depth"] = p.Depth
}

func lookup(cfg *Config, path string) reflect.Value {
	v := reflect.ValueOf(cfg).Elem()
	for _, part := range strings.Split(path, ".") {
		t := v.Type()
		found := false
		for i := 0; i < v.NumField(); i++ {
			if tag, _ := t.Field(i).Tag.Lookup("json"); tag == part {
				v = v.Field(i)
				found = true
				break
			}
		}
		if !found {
			panic("no such property " + path)
		}
	}
	return v
}

// decodeAs decodes a JSON-form value into the property's value type.
func decodeAs(cfg *Config, path string, v any) reflect.Value {
	f := lookup(cfg, path)
	t := f.Addr().MethodByName("Read").Type().Out(0)
	p := reflect.New(t)
	b, _ := json.Marshal(v)
	if err := json.Unmarshal(b, p.Interface()); err != nil {
		panic(err)
	}
	return p.Elem()
}

type updCase struct {
	name  string
	d     map[string]any
	class string // "valid", "invalid" (must be rejected), "ill-typed", "unknown"
}

func updateCases() []updCase {
	var cs []updCase
	add := func(name, class string, kv ...any) { cs = append(cs, updCase{name, doc(kv...), class}) }
	add("limit-valid", "valid", "cache.max_cache_size", "2G")
	add("interval-valid", "valid", "cache.cleanup_interval", "30m")
	add("level-valid", "valid", "logging.level", "WARN")
	add("two-valid", "valid", "cache.max_cache_size", "3G", "cache.cleanup_interval", "45m")
	add("interval-negative", "invalid", "cache.cleanup_interval", "-5s")
	add("interval-zero", "invalid", "cache.cleanup_interval", "0s")
	add("limit-zero", "invalid", "cache.max_cache_size", "0B")
	add("budget-too-high", "invalid", "cache.memory.memory_budget_percent", 101)
	add("budget-negative", "invalid", "cache.memory.memory_budget_percent", -1)
	add("type-unknown", "invalid", "cache.type", "disk")
	add("listen-empty", "invalid", "proxy.listen", "")
	add("dir-empty", "invalid", "cache.file.dir", "")
	add("limit-ill-typed-number", "ill-typed", "cache.max_cache_size", 5)
	add("limit-garbage-string", "ill-typed", "cache.max_cache_size", "lots")
	add("interval-ill-typed", "ill-typed", "cache.cleanup_interval", 30)
	add("interval-garbage", "ill-typed", "cache.cleanup_interval", "soon")
	add("shards-string", "ill-typed", "cache.lock_shards", "many")
	add("bool-string", "ill-typed", "proxy.retry_on_invalid_range", "yes")
	add("level-object", "ill-typed", "logging.level", map[string]any{"x": 1})
	add("limit-null", "ill-typed", "cache.max_cache_size", nil)
	// several keys of which a later (or earlier) one fails: both map orders are run
	add("valid-then-invalid", "invalid", "cache.max_cache_size", "4G", "cache.cleanup_interval", "-1s")
	add("valid-then-ill-typed", "ill-typed", "cache.max_cache_size", "4G", "logging.max_backups", "three")
	add("three-keys-last-invalid", "invalid", "cache.max_cache_size", "4G", "logging.level", "ERROR", "proxy.listen", "")
	add("valid-and-invalid-same-section", "invalid", "cache.cleanup_interval", "10m", "cache.memory.memory_budget_percent", 400)
	// documents that REPEAT a value an earlier valid document may have set (a rollback must restore
	// the value in effect before this update, not an older one)
	add("repeat-limit-then-invalid", "invalid", "cache.max_cache_size", "2G", "cache.memory.memory_budget_percent", 400)
	add("repeat-level-then-invalid", "invalid", "logging.level", "WARN", "proxy.listen", "")
	add("repeat-two-then-ill-typed", "ill-typed", "cache.max_cache_size", "3G", "cache.cleanup_interval", "45m", "logging.max_backups", "three")
	add("limit-valid-again", "valid", "cache.max_cache_size", "2G")
	return cs
}

type probe struct {
	calls []string
}

// attachProbes subscribes a recording listener to every property.
func attachProbes(cfg *Config, p *probe) {
	var walk func(v reflect.Value, prefix string)
	walk = func(v reflect.Value, prefix string) {
		t := v.Type()
		for i := 0; i < v.NumField(); i++ {
			f := v.Field(i)
			tag, _ := t.Field(i).Tag.Lookup("json")
			name := prefix + tag
			if strings.HasPrefix(f.Type().Name(), "ConfigProp[") {
				m := f.Addr().MethodByName("OnChange")
				cb := reflect.MakeFunc(m.Type().In(0), func(args []reflect.Value) []reflect.Value {
					p.calls = append(p.calls, name+"<-"+exact(args[0]))
					return nil
				})
				m.Call([]reflect.Value{cb})
				continue
			}
			if f.Kind() == reflect.Struct {
				walk(f, name+".")
			}
		}
	}
	walk(reflect.ValueOf(cfg).Elem(), "")
}

// scenarioUpdate (C18): sequences of update documents; a rejected update changes nothing.
func scenarioUpdate(c *vrun.Ctx) {
	var p struct {
		Depth int `json:"depth"`
	}
	c.Params(&p)
	cases := updateCases()
	n := len(cases)
	total := 1
	for i := 0; i < p.Depth; i++ {
		total *= n
	}
	caseNo := 0
	for _, rev := range []bool{false, true} {
		for hi := 0; hi < total; hi++ {
			caseNo++
			if !c.Mine(caseNo) {
				continue
			}
			seq := make([]updCase, p.Depth)
			x := hi
			for i := p.Depth - 1; i >= 0; i-- {
				seq[i] = cases[x%n]
				x /= n
			}
			c.Case()
			var problem, kind string
			var names []string
			for _, s := range seq {
				names = append(names, s.name)
			}
			vsched.SetMapReverse(rev)
			ex := run(func() {
				cfg := freshConfig()
				pr := &probe{}
				attachProbes(cfg, pr)
				for step, u := range seq {
					before := snapshot(cfg)
					fileBefore, _ := os.ReadFile(configPath.Path)
					callsBefore := len(pr.calls)
					restartBefore := IsRestartNeeded()
					st, err := UpdatePartialFromConfig(cfg, u.d)
					vsched.Quiesce()
					after := snapshot(cfg)
					fileAfter, _ := os.ReadFile(configPath.Path)
					rejected := err != nil || st == UpdateStatusFailed
					if u.class != "valid" && !rejected {
						problem, kind = fmt.Sprintf("step %d: update %s (%s) was accepted", step, u.name, u.class), "unworkable-update-accepted/"+u.name
						return
					}
					if u.class == "valid" && rejected {
						problem, kind = fmt.Sprintf("step %d: valid update %s was rejected: %v", step, u.name, err), "valid-update-rejected/"+u.name
						return
					}
					if rejected {
						if d := diffSnap(before, after); len(d) > 0 {
							problem, kind = fmt.Sprintf("step %d: update %s was rejected (%v) but the running settings changed: %s", step, u.name, err, strings.Join(d, "; ")), "rejected-update-changed-settings/"+u.class
							return
						}
						if len(pr.calls) != callsBefore {
							problem, kind = fmt.Sprintf("step %d: update %s was rejected (%v) but components were notified: %v", step, u.name, err, pr.calls[callsBefore:]), "rejected-update-notified-components/"+u.class
							return
						}
						if string(fileBefore) != string(fileAfter) {
							problem, kind = fmt.Sprintf("step %d: update %s was rejected but the file on disk changed", step, u.name), "rejected-update-changed-file/"+u.class
							return
						}
						if IsRestartNeeded() != restartBefore {
							problem, kind = fmt.Sprintf("step %d: update %s was rejected (%v) but the process now reports that a restart is needed", step, u.name, err), "rejected-update-set-restart-flag/"+u.class
							return
						}
						continue
					}
					// accepted: exactly the addressed settings changed, and the file loads to the same settings
					addressed := flatten(u.d, "")
					for _, dl := range diffSnap(before, after) {
						k, _, _ := strings.Cut(dl, ":")
						if !addressed[k] {
							problem, kind = fmt.Sprintf("step %d: update %s changed a setting it does not address: %s", step, u.name, dl), "accepted-update-changed-other-settings"
							return
						}
					}
					loaded, lerr := load(configPath.Path)
					if lerr != nil {
						problem, kind = fmt.Sprintf("step %d: after accepted update %s the file does not load: %v", step, u.name, lerr), "accepted-update-file-does-not-load"
						return
					}
					if d := diffSnap(after, snapshot(loaded)); len(d) > 0 {
						problem, kind = fmt.Sprintf("step %d: after accepted update %s the next start would load different settings: %s", step, u.name, strings.Join(d, "; ")), "accepted-update-not-what-next-start-loads"
						return
					}
				}
			})
			vsched.SetMapReverse(false)
			if ex.Status != "complete" && problem == "" {
				problem, kind = ex.Status+": "+ex.Detail+ex.PanicVal, "process-abort"
			}
			c.Outcome(strings.Join(names, ","))
			if problem != "" {
				c.SetCase(strings.Join(names, " ") + fmt.Sprintf(" (map order reversed: %v)", rev))
				c.Violation("C18/update/"+kind, problem+" | sequence "+strings.Join(names, " ")+fmt.Sprintf(" (reverse key order: %v)", rev), nil)
			}
		}
	}
	c.Res.Bounds["update_documents"] = n
	c.Res.Bounds["depth"] = p.Depth
	c.Sample(map[string]any{"sequence": []string{"valid-then-invalid"}, "expect": "rejected; nothing changes"})
}

func flatten(d map[string]any, prefix string) map[string]bool {
	out := map[string]bool{}
	for k, v := range d {
		if m, ok := v.(map[string]any); ok {
			for kk := range flatten(m, prefix+k+".") {
				out[kk] = true
			}
			continue
		}
		out[prefix+k] = true
	}
	return out
}

// scenarioPersistFaults (C18, E5): the config-file write fails at Create and after every byte count.
func scenarioPersistFaults(c *vrun.Ctx) {
	// learn the file length
	var fileLen int
	run(func() {
		cfg := freshConfig()
		UpdatePartialFromConfig(cfg, doc("cache.max_cache_size", "2G"))
		b, _ := os.ReadFile(configPath.Path)
		fileLen = len(b)
	})
	type planT struct {
		name   string
		plan   vos.Plan
		repeat bool
	}
	var plans []planT
	for _, rep := range []bool{false, true} {
		sfx := ""
		if rep {
			sfx = "/value-already-in-effect"
		}
		plans = append(plans, planT{"create-fails" + sfx, vos.Plan{FailCall: 0, FailOp: "create", WriteLimit: -1}, rep})
		plans = append(plans, planT{"rename-fails" + sfx, vos.Plan{FailCall: 0, FailOp: "rename", WriteLimit: -1}, rep})
		for b := 0; b < fileLen; b++ {
			plans = append(plans, planT{fmt.Sprintf("write-fails-after%s=%d", sfx, b), vos.Plan{FailCall: -1, WriteLimit: b}, rep})
		}
	}
	for i, pl := range plans {
		if !c.Mine(i) {
			continue
		}
		c.Case()
		var problem, kind string
		ex := run(func() {
			cfg := freshConfig()
			if pl.repeat {
				// the value is already in effect (set by an earlier accepted update)
				if _, err := UpdatePartialFromConfig(cfg, doc("cache.max_cache_size", "2G", "logging.max_backups", 5)); err != nil {
					problem, kind = "setup update failed: "+err.Error(), "setup"
					return
				}
				vsched.Quiesce()
			}
			before := snapshot(cfg)
			fileBefore, _ := os.ReadFile(configPath.Path)
			vos.Begin(pl.plan)
			st, err := UpdatePartialFromConfig(cfg, doc("cache.max_cache_size", "2G", "logging.max_backups", 7))
			vos.End()
			vsched.Quiesce()
			if err == nil && st != UpdateStatusFailed {
				problem, kind = "the update reported success although writing the file failed", "failed-write-reported-as-success"
				return
			}
			if d := diffSnap(before, snapshot(cfg)); len(d) > 0 {
				problem, kind = "the update failed (file write) but the running settings changed: "+strings.Join(d, "; "), "failed-write-changed-settings"
				return
			}
			fileAfter, _ := os.ReadFile(configPath.Path)
			if string(fileAfter) != string(fileBefore) {
				problem, kind = fmt.Sprintf("the update failed but the file on disk changed (%d -> %d bytes): the next start loads something else", len(fileBefore), len(fileAfter)), "failed-write-damaged-file"
			}
		})
		if ex.Status != "complete" && problem == "" {
			problem, kind = ex.Status+": "+ex.Detail+ex.PanicVal, "process-abort"
		}
		c.Outcome(faultKind(pl.name))
		if problem != "" {
			c.SetCase(pl.name)
			c.Violation("C18/persist/"+kind+"/"+faultKind(pl.name), problem+" | fault "+pl.name, nil)
		}
	}
	c.Res.Bounds["file_length"] = fileLen
}

func faultKind(n string) string {
	k, _, _ := strings.Cut(n, "=")
	return k
}

// scenarioListenerSched (C19): a component that re-reads the configuration inside its
// change callback must end up with the latest value under every schedule of the notifier.
func scenarioListenerSched(c *vrun.Ctx) {
	var seen, final string
	var err error
	body := func() {
		cfg := freshConfig()
		seen = ""
		// like logging.updateLogger: the callback ignores its argument and re-reads the configuration
		cfg.Logging.MaxBackups.OnChange(func(int) { seen = fmt.Sprint(cfg.Logging.MaxBackups.Read()) })
		_, err = UpdatePartialFromConfig(cfg, doc("logging.max_backups", 7))
		vsched.Quiesce()
		final = fmt.Sprint(cfg.Logging.MaxBackups.Read())
	}
	c.Explore(vrun.ExploreOpts{Name: "callback-rereads-config", K: -1, E: -1, Prop: "C19", Body: body, Check: func(x *vsched.Exec) {
		c.Outcome(seen + "/" + final)
		if err != nil {
			c.Violation("C19/config/update-failed", "valid update failed: "+err.Error(), x)
			return
		}
		if seen != final {
			c.Violation("C19/config/component-reads-stale-setting-in-callback", fmt.Sprintf("after the accepted change to %s the component that re-reads the configuration in its change callback (as logging does) saw %q", final, seen), x)
		}
	}})
}

func init() { vrun.Register("config/reader-sched", scenarioReaderSched) }

// scenarioReaderSched (C17): a command-line override wins for the running process "also after
// later API updates": a reader that looks at the setting at any moment of an update - before,
// between any two of its steps, after - sees the override, never the saved value; the file gets
// the saved value and never the override. Without an override a reader sees the old value until
// it sees the new one, and never the old one again.
func scenarioReaderSched(c *vrun.Ctx) {
	for _, overridden := range []bool{true, false} {
		name := "reader-vs-update/no-override"
		if overridden {
			name = "reader-vs-update/overridden"
		}
		var reads []string
		var notified []string
		var final, file string
		var err error
		body := func() {
			cfg := freshConfig()
			reads, notified = nil, nil
			if overridden {
				cfg.Logging.MaxBackups.Overwrite(55)
				vsched.Quiesce()
			}
			cfg.Logging.MaxBackups.OnChange(func(v int) { notified = append(notified, fmt.Sprint(v)) })
			vsched.GoHarness("updater", func() {
				_, err = UpdatePartialFromConfig(cfg, doc("logging.max_backups", 7))
			})
			vsched.GoHarness("reader", func() {
				for i := 0; i < 3; i++ {
					reads = append(reads, fmt.Sprint(cfg.Logging.MaxBackups.Read()))
				}
			})
			vsched.JoinHarness()
			vsched.Quiesce()
			final = fmt.Sprint(cfg.Logging.MaxBackups.Read())
			b, _ := os.ReadFile(configPath.Path)
			file = string(b)
		}
		old := fmt.Sprint(NewDefault().Logging.MaxBackups.Read())
		c.Explore(vrun.ExploreOpts{Name: name, K: -1, E: -1, Prop: "C17", Body: body, Check: func(x *vsched.Exec) {
			c.Outcome(name + ":" + strings.Join(reads, ",") + "/" + final + "/" + strings.Join(notified, ","))
			if err != nil {
				c.Violation("C17/reader-sched/update-failed", "valid update failed: "+err.Error(), x)
				return
			}
			if !strings.Contains(file, `"max_backups": 7`) && !strings.Contains(file, `"max_backups":7`) {
				c.Violation("C17/reader-sched/file-lacks-saved-value", "after the update the file does not hold max_backups 7", x)
			}
			if overridden {
				for i, r := range append(append([]string{}, reads...), final) {
					if r != "55" {
						c.Violation("C17/reader-sched/override-not-in-effect", fmt.Sprintf("read %d during/after an API update saw %s although the command line says 55 (reads %v, final %s)", i+1, r, reads, final), x)
						break
					}
				}
				for _, n := range notified {
					if n != "55" {
						c.Violation("C17/reader-sched/override-not-in-effect", "a subscriber was handed "+n+" although the command line says 55", x)
					}
				}
				if strings.Contains(file, "55") {
					c.Violation("C17/reader-sched/override-saved", "the command-line value 55 was written to the file", x)
				}
				return
			}
			seenNew := false
			for _, r := range append(append([]string{}, reads...), final) {
				switch {
				case r == "7":
					seenNew = true
				case r == old && !seenNew:
				default:
					c.Violation("C17/reader-sched/reader-sees-neither-old-nor-new", fmt.Sprintf("reads %v then %s: expected %s until 7, then 7", reads, final, old), x)
				}
			}
			if final != "7" {
				c.Violation("C17/reader-sched/update-not-in-effect", "after the update the setting reads "+final, x)
			}
		}})
	}
}

func init() { vrun.Register("config/doc-shapes", scenarioDocShapes) }

// scenarioDocShapes (C16, C18): every JSON value shape at every position of an update document
// (each section and each property of the default configuration, plus unknown keys at every level):
// the update is accepted or rejected with an error, never with a panic; a rejected one changes
// neither the settings nor the file.
func scenarioDocShapes(c *vrun.Ctx) {
	base := freshConfig()
	raw, _ := json.Marshal(base)
	var tree map[string]any
	json.Unmarshal(raw, &tree)
	var sections, props []string
	jsonType := map[string]string{} // the JSON type each known position takes
	var walk func(m map[string]any, prefix string)
	walk = func(m map[string]any, prefix string) {
		keys := make([]string, 0, len(m))
		for k := range m {
			keys = append(keys, k)
		}
		sort.Strings(keys)
		for _, k := range keys {
			p := k
			if prefix != "" {
				p = prefix + "." + k
			}
			if sub, ok := m[k].(map[string]any); ok {
				sections = append(sections, p)
				walk(sub, p)
			} else {
				props = append(props, p)
				switch m[k].(type) {
				case bool:
					jsonType[p] = "bool"
				case float64:
					jsonType[p] = "number"
				case string:
					jsonType[p] = "string"
				}
			}
		}
	}
	walk(tree, "")
	for _, s := range sections {
		jsonType[s] = "object"
	}
	var positions []string
	positions = append(positions, sections...)
	positions = append(positions, props...)
	for _, s := range sections {
		positions = append(positions, s+".no_such_key")
	}
	positions = append(positions, "no_such_section", "no_such_section.x")
	shapes := []string{`null`, `true`, `0`, `-1`, `1.5`, `123456789012345678901234567890`, `""`, `"x"`, `[]`, `[null]`, `{}`, `{"a":1}`, `{"a":null}`, `[{}]`}
	for _, pos := range positions {
		for _, sh := range shapes {
			c.Case()
			var val any
			dec := json.NewDecoder(strings.NewReader(sh))
			if err := dec.Decode(&val); err != nil {
				panic(err)
			}
			desc := pos + " = " + sh
			var pan any
			var uerr error
			var before, after map[string]string
			var fileBefore, fileAfter []byte
			ex := run(func() {
				cfg := freshConfig()
				before = snapshot(cfg)
				fileBefore, _ = os.ReadFile(configPath.Path)
				func() {
					defer func() { pan = recover() }()
					_, uerr = UpdatePartialFromConfig(cfg, doc(pos, val))
				}()
				vsched.Quiesce()
				after = snapshot(cfg)
				fileAfter, _ = os.ReadFile(configPath.Path)
			})
			c.Outcome(fmt.Sprintf("%s:%v:%v", sh, uerr != nil, pan != nil))
			if pan != nil || ex.Status != "complete" {
				c.SetCase(desc)
				c.Violation("C16/config/update-panics/"+shapeClass(sh)+"/"+positionClass(pos, sections), fmt.Sprintf("UpdatePartialFromConfig panics for the document {%s}: %v %s %s", desc, pan, ex.Status, ex.PanicVal), nil)
				continue
			}
			if want, known := jsonType[pos]; known && uerr == nil && shapeClass(sh) != want {
				// "a rejected or failed update (ill-typed value, ...)": a value of the wrong JSON type is rejected,
				// not taken for the zero value or silently dropped
				c.SetCase(desc)
				c.Violation("C18/config/ill-typed-value-accepted/"+shapeClass(sh)+"-for-"+want, fmt.Sprintf("the document {%s} was accepted although %s takes a JSON %s; it changed %v", desc, pos, want, diffSnap(before, after)), nil)
			}
			if uerr != nil {
				if d := diffSnap(before, after); len(d) > 0 || string(fileBefore) != string(fileAfter) {
					c.SetCase(desc)
					c.Violation("C18/config/rejected-shape-changed-settings/"+shapeClass(sh), fmt.Sprintf("the document {%s} was rejected (%v) but changed %v (file changed: %v)", desc, uerr, d, string(fileBefore) != string(fileAfter)), nil)
				}
			}
		}
	}
	c.Res.Bounds["positions"] = len(positions)
	c.Res.Bounds["value_shapes"] = shapes
}

func shapeClass(sh string) string {
	switch sh[0] {
	case 'n':
		return "null"
	case '[':
		return "array"
	case '{':
		return "object"
	case '"':
		return "string"
	case 't':
		return "bool"
	}
	return "number"
}

func positionClass(pos string, sections []string) string {
	for _, s := range sections {
		if s == pos {
			return "section"
		}
	}
	if strings.Contains(pos, "no_such") {
		return "unknown-key"
	}
	return "property"
}

func apiOffDashboardOn(d map[string]any) bool {
	ws, _ := d["webserver"].(map[string]any)
	if ws == nil {
		return false
	}
	api, _ := ws["api_disabled"].(bool)
	dash, _ := ws["dashboard_disabled"].(bool)
	return api && !dash
}
