//go:build verif

package config

import (
	"encoding/json"
	"fmt"
	"os"
	"strings"

	"reservoir/zzverif/vrun"
	"reservoir/zzverif/vsched"
)

func init() { vrun.Register("config/concurrent", scenarioConcurrent) }

// scenarioConcurrent: the configuration object under what the dashboard API does to it at the same
// time - GET /api/config (marshals it), PATCH /api/config (updates it), components reading settings.
// Run in the race build for C15; the state oracles are C18's: a rejected update is never in effect,
// not even for a moment; a valid update is accepted whatever else is going on; afterwards the running
// settings and the file agree and hold the accepted values only.
func scenarioConcurrent(c *vrun.Ctx) {
	old := fmt.Sprint(NewDefault().Logging.MaxBackups.Read())
	fileValue := func() string {
		b, _ := os.ReadFile(configPath.Path)
		var tree map[string]any
		if json.Unmarshal(b, &tree) != nil {
			return "unreadable"
		}
		l, _ := tree["logging"].(map[string]any)
		return fmt.Sprint(l["max_backups"])
	}
	type outcome struct {
		reads     []string
		errA      error
		errB      error
		final     string
		file      string
		marshaled string
		notified  []string
	}
	var o outcome
	scens := []struct {
		name string
		body func(cfg *Config)
	}{
		{"marshal-vs-accepted-update", func(cfg *Config) {
			vsched.GoHarness("get-config", func() {
				b, err := json.Marshal(cfg)
				if err != nil {
					o.marshaled = "error: " + err.Error()
					return
				}
				var tree map[string]any
				json.Unmarshal(b, &tree)
				l, _ := tree["logging"].(map[string]any)
				o.marshaled = fmt.Sprint(l["max_backups"])
			})
			vsched.GoHarness("patch", func() { _, o.errA = UpdatePartialFromConfig(cfg, doc("logging.max_backups", 7)) })
			vsched.GoHarness("subscribe", func() { cfg.Logging.MaxBackups.OnChange(func(int) {}) })
		}},
		{"reader-vs-rejected-update", func(cfg *Config) {
			vsched.GoHarness("patch", func() {
				_, o.errB = UpdatePartialFromConfig(cfg, doc("logging.max_backups", 9, "cache.lock_shards", 0))
			})
			vsched.GoHarness("reader", func() {
				for i := 0; i < 3; i++ {
					o.reads = append(o.reads, fmt.Sprint(cfg.Logging.MaxBackups.Read()))
				}
			})
		}},
		{"accepted-vs-rejected-update", func(cfg *Config) {
			vsched.GoHarness("patch-valid", func() { _, o.errA = UpdatePartialFromConfig(cfg, doc("logging.max_backups", 7)) })
			vsched.GoHarness("patch-invalid", func() {
				_, o.errB = UpdatePartialFromConfig(cfg, doc("logging.max_backups", 9, "cache.lock_shards", 0))
			})
		}},
		{"two-accepted-updates", func(cfg *Config) {
			vsched.GoHarness("patch-1", func() { _, o.errA = UpdatePartialFromConfig(cfg, doc("logging.max_backups", 7)) })
			vsched.GoHarness("patch-2", func() { _, o.errB = UpdatePartialFromConfig(cfg, doc("logging.max_size", "3M")) })
		}},
	}
	for _, sc := range scens {
		sc := sc
		body := func() {
			cfg := freshConfig()
			o = outcome{}
			cfg.Logging.MaxBackups.OnChange(func(v int) { o.notified = append(o.notified, fmt.Sprint(v)) })
			sc.body(cfg)
			vsched.JoinHarness()
			vsched.Quiesce()
			o.final = fmt.Sprint(cfg.Logging.MaxBackups.Read())
			o.file = fileValue()
			if sc.name == "two-accepted-updates" {
				b, _ := os.ReadFile(configPath.Path)
				o.file += "/" + fmt.Sprint(strings.Contains(string(b), `"3M"`)) + "/" + cfg.Logging.MaxSize.Read().String()
			}
		}
		c.Explore(vrun.ExploreOpts{Name: sc.name, K: -1, E: -1, Prop: "C18", Body: body, Check: func(x *vsched.Exec) {
			c.Outcome(fmt.Sprintf("%s:%v/%v/%v/%s/%s/%s/%v", sc.name, o.reads, o.errA != nil, o.errB != nil, o.final, o.file, o.marshaled, o.notified))
			key := "C18/concurrent/" + sc.name + "/"
			switch sc.name {
			case "marshal-vs-accepted-update":
				if o.errA != nil {
					c.Violation(key+"valid-update-refused", "a valid update was refused while the configuration was being read: "+o.errA.Error(), x)
				}
				if o.marshaled != old && o.marshaled != "7" {
					c.Violation(key+"get-config-sees-neither-old-nor-new", "GET /api/config during the update showed max_backups "+o.marshaled, x)
				}
				if o.final != "7" || o.file != "7" {
					c.Violation(key+"update-not-in-effect", "after the accepted update: running "+o.final+", file "+o.file, x)
				}
			case "reader-vs-rejected-update":
				if o.errB == nil {
					c.Violation(key+"invalid-update-accepted", "lock_shards 0 was accepted", x)
				}
				for _, r := range append(append([]string{}, o.reads...), o.final) {
					if r != old {
						c.Violation(key+"rejected-value-in-effect", fmt.Sprintf("a component reading the setting during a rejected update saw %s (reads %v, afterwards %s): the refused value was in effect for a moment", r, o.reads, o.final), x)
						break
					}
				}
				if o.file != old || len(o.notified) != 0 {
					c.Violation(key+"rejected-update-left-traces", fmt.Sprintf("file max_backups %s, notifications %v", o.file, o.notified), x)
				}
			case "accepted-vs-rejected-update":
				if o.errA != nil {
					c.Violation(key+"valid-update-refused", "a valid update was refused because another (invalid) update was in progress: "+o.errA.Error(), x)
				}
				if o.errB == nil {
					c.Violation(key+"invalid-update-accepted", "lock_shards 0 was accepted", x)
				}
				if o.errA == nil && (o.final != "7" || o.file != "7") {
					c.Violation(key+"running-and-file-disagree", fmt.Sprintf("after one accepted (7) and one rejected (9) update: running %s, file %s", o.final, o.file), x)
				}
				for _, n := range o.notified {
					if n != "7" {
						c.Violation(key+"rejected-value-notified", "subscribers were told "+n, x)
					}
				}
			case "two-accepted-updates":
				if o.errA != nil || o.errB != nil {
					c.Violation(key+"valid-update-refused", fmt.Sprintf("two valid updates of different settings at the same time: %v / %v", o.errA, o.errB), x)
				} else if o.final != "7" || o.file != "7/true/3M" {
					c.Violation(key+"running-and-file-disagree", fmt.Sprintf("after two accepted updates: running max_backups %s, file/max_size %s", o.final, o.file), x)
				}
			}
		}})
	}
}
