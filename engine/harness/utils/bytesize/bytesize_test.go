//go:build verif

package bytesize

import (
	"encoding/json"
	"fmt"
	"math/big"
	"regexp"
	"testing"

	"reservoir/zzverif/vrun"
)

func TestVF(t *testing.T) { vrun.Main(t) }

func init() { vrun.Register("bytesize/enum", scenarioEnum) }

var reSize = regexp.MustCompile(`^([0-9]+)([BKMGT])$`)

func scenarioEnum(c *vrun.Ctx) {
	var p struct {
		MaxLen int `json:"max_len"`
		MaxRT  int `json:"max_round_trip"`
	}
	c.Params(&p)
	// ---- round trip: Unmarshal(Marshal(b)) == b ----
	var vals []int64
	for b := int64(0); b <= int64(p.MaxRT); b++ {
		vals = append(vals, b)
	}
	for _, u := range []int64{UnitK, UnitM, UnitG, UnitT} {
		for _, k := range []int64{1, 2, 3, 1023, 1024, 1025} {
			for _, d := range []int64{-1, 0, 1} {
				vals = append(vals, k*u+d)
			}
		}
	}
	for n := uint(0); n <= 62; n++ {
		vals = append(vals, int64(1)<<n, int64(1)<<n-1, int64(1)<<n+1)
	}
	for i, b := range vals {
		if !c.Mine(i) {
			continue
		}
		c.Case()
		func() {
			defer func() {
				if r := recover(); r != nil {
					c.Violation("C16/bytesize/panic/round-trip", fmt.Sprintf("ByteSize(%d) round trip panics: %v", b, r), nil)
				}
			}()
			js, err := json.Marshal(ByteSize(b))
			if err != nil {
				c.Violation("C17/bytesize/marshal-error", fmt.Sprintf("ByteSize(%d): %v", b, err), nil)
				return
			}
			var back ByteSize
			if err := json.Unmarshal(js, &back); err != nil {
				c.SetCase(fmt.Sprintf("%d", b))
				c.Violation("C17/bytesize/written-form-does-not-parse", fmt.Sprintf("ByteSize(%d) is written as %s which does not read back: %v", b, js, err), nil)
				return
			}
			if int64(back) != b {
				cls := "not-a-unit-multiple"
				if b%1024 == 0 {
					cls = "unit-multiple"
				}
				c.SetCase(fmt.Sprintf("%d", b))
				c.Violation("C17/bytesize/round-trip-changes-value/"+cls, fmt.Sprintf("ByteSize(%d) is written as %s and reads back as %d", b, js, int64(back)), nil)
			}
			c.Outcome("rt:" + string(js[len(js)-2]))
		}()
	}
	// ---- Parse: accepted iff digits+unit, value digits*unit without overflow ----
	sigma := []byte{'0', '1', '9', 'B', 'K', 'M', 'G', 'T', 'x', '-', ' '}
	count := 0
	var rec func(cur []byte)
	check := func(s string) {
		count++
		if !c.Mine(count) {
			return
		}
		c.Case()
		var got ByteSize
		var err error
		var pan any
		func() {
			defer func() { pan = recover() }()
			got, err = Parse(s)
		}()
		if pan != nil {
			c.SetCase(s)
			c.Violation("C16/bytesize/panic/parse", fmt.Sprintf("Parse(%q) panics: %v", s, pan), nil)
			return
		}
		m := reSize.FindStringSubmatch(s)
		var want *big.Int
		if m != nil {
			n, _ := new(big.Int).SetString(m[1], 10)
			want = n.Mul(n, big.NewInt(unitRuneMap[rune(m[2][0])]))
			if !want.IsInt64() {
				want = nil // does not fit: must be rejected
			}
		}
		switch {
		case want == nil && err == nil:
			c.SetCase(s)
			c.Violation("C17/bytesize/accepts-invalid-size-string/"+sizeClass(s, m != nil), fmt.Sprintf("Parse(%q) is accepted (as %d bytes) although it is not digits followed by one unit (or does not fit)", s, int64(got)), nil)
			c.Outcome("accept-invalid")
		case want != nil && err != nil:
			c.SetCase(s)
			c.Violation("C17/bytesize/rejects-valid-size-string", fmt.Sprintf("Parse(%q) is rejected: %v", s, err), nil)
		case want != nil && int64(got) != want.Int64():
			c.SetCase(s)
			c.Violation("C17/bytesize/wrong-value", fmt.Sprintf("Parse(%q) = %d, digits times unit is %s", s, int64(got), want), nil)
		case want != nil:
			c.Outcome("accept-valid:" + m[2])
		default:
			c.Outcome("reject")
		}
	}
	rec = func(cur []byte) {
		check(string(cur))
		if len(cur) == p.MaxLen {
			return
		}
		for _, ch := range sigma {
			rec(append(cur, ch))
		}
	}
	rec(nil)
	for _, s := range []string{"9223372036854775807B", "9223372036854775808B", "9007199254740993K", "99999999999T", "8388608T", "8388607T", "18446744073709551616B", "１Ｋ", "1k", "1KB", "1 K", "+1K", "1.5K", "0x10K", "1K\n",
		// digits outside ASCII (Unicode category Nd) are not digits of the documented form
		"٣K", "１０G", "1٠G", "१K", "٠B", "1１M", "߁T", "𝟏K", "²K", "½K", "ⅧK"} {
		check(s)
	}
	c.Res.Bounds["parse_alphabet"] = string(sigma)
	c.Res.Bounds["parse_max_len"] = p.MaxLen
	c.Res.Bounds["round_trip_values"] = len(vals)
	c.Sample(map[string]any{"round_trip": 1536, "parse": "10G"})
}

func sizeClass(s string, shape bool) string {
	switch {
	case shape:
		return "overflow"
	case s == "":
		return "empty"
	case regexp.MustCompile(`^[0-9]+$`).MatchString(s):
		return "no-unit"
	case regexp.MustCompile(`^[0-9]*[BKMGT].+$`).MatchString(s):
		return "text-after-unit"
	case regexp.MustCompile(`^[BKMGT]`).MatchString(s):
		return "no-digits"
	}
	return "other"
}
