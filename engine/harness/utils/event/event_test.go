//go:build verif

package event

import (
	"sort"
	"strconv"
	"strings"
	"testing"

	"reservoir/zzverif/vrun"
	"reservoir/zzverif/vsched"
)

func TestVF(t *testing.T) { vrun.Main(t) }

func init() {
	vrun.Register("event/seq", scenarioSeq)
	vrun.Register("event/sched", scenarioSched)
}

type seqParams struct {
	Listeners int `json:"listeners"`
	Depth     int `json:"depth"`
}

type delivery struct {
	listener int
	value    int
}

// scenarioSeq enumerates every sequence over {subscribe i, unsubscribe i (call the
// remover returned for i), fire} up to the depth and compares, after every step, the
// set of listeners a probe Fire reaches with the reference set (B6).
func scenarioSeq(c *vrun.Ctx) {
	var p seqParams
	c.Params(&p)
	var alphabet []string
	for i := 0; i < p.Listeners; i++ {
		alphabet = append(alphabet, "S"+strconv.Itoa(i))
	}
	for i := 0; i < p.Listeners; i++ {
		alphabet = append(alphabet, "U"+strconv.Itoa(i))
	}
	alphabet = append(alphabet, "F")
	n := len(alphabet)
	total := 1
	for i := 0; i < p.Depth; i++ {
		total *= n
	}
	idx := make([]int, p.Depth)
	for hi := 0; hi < total; hi++ {
		if hi%4096 == 0 && c.Expired() {
			return
		}
		if !c.Mine(hi) {
			continue
		}
		x := hi
		for i := p.Depth - 1; i >= 0; i-- {
			idx[i] = x % n
			x /= n
		}
		hist := make([]string, p.Depth)
		// prune sequences that subscribe a subscribed listener or unsubscribe one that is not
		sub := map[int]bool{}
		valid := true
		for i, j := range idx {
			hist[i] = alphabet[j]
			if hist[i] == "F" {
				continue
			}
			li, _ := strconv.Atoi(hist[i][1:])
			if hist[i][0] == 'S' {
				if sub[li] {
					valid = false
				}
				sub[li] = true
			} else {
				if !sub[li] {
					valid = false
				}
				sub[li] = false
			}
		}
		if !valid {
			continue
		}
		c.Case()
		var problem, kind string
		var endSet string
		ex := vsched.Run(vsched.Config{Horizon: 100000}, func() {
			e := New[int]()
			removers := map[int]Unsubscribe{}
			model := map[int]bool{}
			var log []delivery
			probe := 1000
			for step, op := range hist {
				if op == "F" {
					// covered by the probe below
				} else {
					li, _ := strconv.Atoi(op[1:])
					if op[0] == 'S' {
						li := li
						removers[li] = e.Subscribe(func(v int) { log = append(log, delivery{li, v}) })
						model[li] = true
					} else {
						func() {
							defer func() {
								if r := recover(); r != nil && problem == "" {
									problem = "step " + strconv.Itoa(step+1) + " (" + op + ") panicked: " + sprint(r)
									kind = "unsubscribe-panics"
								}
							}()
							removers[li]()
						}()
						delete(model, li)
						delete(removers, li)
					}
				}
				if problem != "" {
					return
				}
				probe++
				log = nil
				e.Fire(probe)
				vsched.Quiesce()
				got := map[int]int{}
				for _, d := range log {
					if d.value == probe {
						got[d.listener]++
					}
				}
				var want, have []string
				for l := range model {
					want = append(want, strconv.Itoa(l))
				}
				for l, cnt := range got {
					have = append(have, strconv.Itoa(l)+"x"+strconv.Itoa(cnt))
				}
				sort.Strings(want)
				sort.Strings(have)
				for i := range want {
					want[i] += "x1"
				}
				if strings.Join(want, ",") != strings.Join(have, ",") {
					problem = "after step " + strconv.Itoa(step+1) + " (" + op + ") a change reaches listeners {" + strings.Join(have, ",") + "} but {" + strings.Join(want, ",") + "} are subscribed"
					kind = "wrong-listener-set-after-" + op[:1]
					return
				}
				endSet = strings.Join(want, ",")
			}
		})
		c.Res.Transitions += ex.Steps
		if ex.Status == "panic" && problem == "" {
			problem, kind = "a notifier thread panicked: "+ex.PanicVal, "notifier-panics"
		}
		c.Outcome(endSet)
		if hi%(total/5+1) == 0 {
			c.Sample(map[string]any{"history": hist, "subscribed_at_end": endSet})
		}
		if problem != "" {
			c.SetCase(strings.Join(hist, " "))
			c.Violation("C19/event/"+kind, problem+"; history: "+strings.Join(hist, " "), nil)
		}
	}
	c.Res.Bounds["depth"] = p.Depth
	c.Res.Bounds["listeners"] = p.Listeners
}

func sprint(r any) string {
	switch v := r.(type) {
	case string:
		return v
	case error:
		return v.Error()
	}
	return "non-string panic value"
}

type schedParams struct {
	Name    string     `json:"name"`
	Threads [][]string `json:"threads"` // ops: S<i>, U<i>, F<v>
	Pre     []string   `json:"pre"`
	Prop    string     `json:"prop"`
	// LastWins: after quiescence every subscribed listener's last delivered value must be the last fired value.
	LastWins bool `json:"last_wins"`
	// OthersNotified: these listeners stay subscribed throughout; every one of them must receive each
	// fired value exactly once, whatever is unsubscribed meanwhile ("neither detaches nor misroutes
	// the notifications of the others").
	OthersNotified []int `json:"others_notified"`
}

// scenarioSched: all schedules of concurrent subscribe / unsubscribe / fire.
func scenarioSched(c *vrun.Ctx) {
	var ps []schedParams
	c.Params(&ps)
	for _, p := range ps {
		p := p
		var lastVals [8]int
		var lastFired int
		var deliveredCount [8]int
		body := func() {
			e := New[int]()
			var removers [8]Unsubscribe
			lastVals = [8]int{}
			deliveredCount = [8]int{}
			lastFired = 0
			do := func(op string) {
				li, _ := strconv.Atoi(op[1:])
				switch op[0] {
				case 'S':
					// a real component's callback has scheduling points of its own (an atomic store, a
					// channel send, a lock): model that with a yield before the value is applied
					removers[li] = e.Subscribe(func(v int) { vsched.Yield("listener applies value"); lastVals[li] = v; deliveredCount[li]++ })
				case 'U':
					if removers[li] != nil {
						removers[li]()
					}
				case 'F':
					lastFired = li
					e.Fire(li)
				}
			}
			for _, op := range p.Pre {
				do(op)
			}
			for t := range p.Threads {
				ops := p.Threads[t]
				vsched.GoHarness("T"+strconv.Itoa(t+1), func() {
					for _, op := range ops {
						do(op)
					}
				})
			}
			vsched.JoinHarness()
			vsched.Quiesce()
		}
		c.Explore(vrun.ExploreOpts{Name: p.Name, K: -1, E: -1, Prop: p.Prop, Body: body, Check: func(x *vsched.Exec) {
			out := ""
			for i := 0; i < 4; i++ {
				out += strconv.Itoa(lastVals[i]) + "/" + strconv.Itoa(deliveredCount[i]) + " "
			}
			c.Outcome(p.Name + ":" + out)
			for _, i := range p.OthersNotified {
				if deliveredCount[i] != 1 || lastVals[i] != lastFired {
					c.Violation("C19/event/"+p.Name+"/notification-of-another-listener-lost", "listener "+strconv.Itoa(i)+" stayed subscribed but received "+strconv.Itoa(deliveredCount[i])+" notifications (last value "+strconv.Itoa(lastVals[i])+") of the one change to "+strconv.Itoa(lastFired)+" while another listener was being unsubscribed", x)
				}
			}
			if p.LastWins {
				for i := 0; i < 4; i++ {
					if deliveredCount[i] > 0 && lastVals[i] != lastFired {
						c.Violation("C19/event/"+p.Name+"/stale-value-applied-last", "listener "+strconv.Itoa(i)+" ends with value "+strconv.Itoa(lastVals[i])+" although the most recent change was "+strconv.Itoa(lastFired)+" (the notifications of back-to-back changes were applied out of order)", x)
					}
				}
			}
		}})
	}
}
