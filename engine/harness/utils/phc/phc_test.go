//go:build verif

package phc

import (
	"encoding/base64"
	"fmt"
	"strings"
	"testing"

	"reservoir/zzverif/vrun"
)

func TestVF(t *testing.T) { vrun.Main(t) }

func init() { vrun.Register("phc/enum", scenarioEnum) }

// scenarioEnum: PHC strings by field mutation. Oracle (C16): ParsePHC returns a value or an
// error, never panics; an accepted string verifies exactly the password it was made from (C20).
func scenarioEnum(c *vrun.Ctx) {
	b64 := func(n int) string { return base64.RawStdEncoding.EncodeToString(make([]byte, n)) }
	ids := []string{"argon2id", "argon2i", "", "ARGON2ID", "argon2id "}
	vers := []string{"v=19", "v=", "v=x", "19", "v=99999999999999999999", "", "v=-1"}
	params := []string{"m=8,t=1,p=1", "m=8,t=1,p=1,l=32", "m=8,t=1", "m=0,t=1,p=1", "m=8,t=1,p=256", "m=x,t=1,p=1", "m=8,,t=1,p=1", "m=8,t=1,p=1,l=31", "m=4294967296,t=1,p=1", "m=4294967295,t=1,p=1", "m=1073741824,t=1,p=1", "m=8,t=4294967295,p=1", "m=8,t=2147483648,p=1", "", "m", "m=8,t=1,p=1,zz=1", "=,=", "m=8,t=1,p=1,l=99999999999"}
	var salts, hashes []string
	for n := 0; n <= 40; n++ {
		salts = append(salts, b64(n))
	}
	salts = append(salts, "!!!!", "AAAA=", strings.Repeat("A", 1000), "AAAAAAAAAAAAAAAAAAAAA$")
	for _, n := range []int{0, 1, 16, 31, 32, 33, 40, 64} {
		hashes = append(hashes, b64(n))
	}
	hashes = append(hashes, "!!!!", "A", "AAAA=")
	prefixes := []string{"$", "", "$$", " $"}
	i := 0
	try := func(s string) {
		i++
		if !c.Mine(i) {
			return
		}
		c.Case()
		var pan any
		var err error
		var ph *PHC
		func() {
			defer func() { pan = recover() }()
			ph, err = ParsePHC(s)
		}()
		if pan != nil {
			c.SetCase(s)
			c.Violation("C16/phc/panic/"+panicClass(fmt.Sprint(pan)), fmt.Sprintf("ParsePHC(%q) panics: %v", s, pan), nil)
			c.Outcome("panic")
			return
		}
		if err != nil {
			c.Outcome("rejected")
			return
		}
		c.Outcome("accepted")
		// An accepted hash is verified at the next login with its own cost parameters. A memory cost of a
		// tebibyte or more (m is in KiB) aborts the process ("fatal error: out of memory", no panic to
		// recover from), 2^31 passes and more never end: such a string has to be rejected, like any other
		// that cannot be used. (The bounds here are far above anything usable; where exactly an
		// implementation draws the line below them is its business.)
		if uint64(ph.memory) >= 1<<30 {
			c.SetCase(s)
			c.Violation("C16/phc/accepted-cost-that-cannot-be-run/memory", fmt.Sprintf("ParsePHC(%q) is accepted: verifying a password against it allocates %d KiB and aborts the process", s, ph.memory), nil)
		}
		if uint64(ph.time) >= 1<<31 {
			c.SetCase(s)
			c.Violation("C16/phc/accepted-cost-that-cannot-be-run/time", fmt.Sprintf("ParsePHC(%q) is accepted: verifying a password against it runs %d passes and never returns", s, ph.time), nil)
		}
		// an accepted hash must be usable: String() round trips and Verify does not panic
		func() {
			defer func() {
				if r := recover(); r != nil {
					c.SetCase(s)
					c.Violation("C16/phc/panic/verify", fmt.Sprintf("VerifyArgon2id on accepted %q panics: %v", s, r), nil)
				}
			}()
			if ph.memory <= 64 && ph.time <= 2 {
				ph.VerifyArgon2id("x")
			}
			if _, err := ParsePHC(ph.String()); err != nil {
				c.SetCase(s)
				c.Violation("C16/phc/accepted-but-not-reparsable", fmt.Sprintf("ParsePHC(%q) is accepted but its String() %q is rejected: %v", s, ph.String(), err), nil)
			}
		}()
	}
	// one-deviation enumeration around a valid string, then all pairs of deviations
	base := []string{"argon2id", "v=19", "m=8,t=1,p=1,l=32", b64(16), b64(32)}
	fields := [][]string{ids, vers, params, salts, hashes}
	for f1 := range fields {
		for _, v1 := range fields[f1] {
			parts := append([]string{}, base...)
			parts[f1] = v1
			for _, pre := range prefixes {
				try(pre + strings.Join(parts, "$"))
			}
			for f2 := f1 + 1; f2 < len(fields); f2++ {
				for _, v2 := range fields[f2] {
					p2 := append([]string{}, parts...)
					p2[f2] = v2
					try("$" + strings.Join(p2, "$"))
				}
			}
		}
	}
	// part counts 3..7, stray separators
	for n := 0; n <= 8; n++ {
		try(strings.Repeat("$x", n))
		try("$" + strings.Join(append(append([]string{}, base...), make([]string, n)...), "$"))
		if n <= len(base) {
			try("$" + strings.Join(base[:n], "$"))
		}
	}
	for _, s := range []string{"", " ", "$", "$$$$$", "$argon2id$v=19$m=8,t=1,p=1$" + b64(16) + "$" + b64(32) + "$", "$argon2id$v=19$m=8,t=1,p=1$$", "\x00", "$argon2id$v=19$m=8,t=1,p=1$" + b64(16) + "$" + b64(32) + "\n"} {
		try(s)
	}
	// an accepted hash verifies exactly its password (cheap parameters)
	for _, pw := range []string{"", "a", "placeholder", "Placeholder", "placeholder ", strings.Repeat("p", 100)} {
		c.Case()
		g := GenerateArgon2id(pw)
		back, err := ParsePHC(g.String())
		if err != nil {
			c.Violation("C20/phc/generated-hash-rejected", fmt.Sprintf("the hash generated for %q does not parse: %v", pw, err), nil)
			continue
		}
		for _, try := range []string{"", "a", "placeholder", "Placeholder", "placeholder ", strings.Repeat("p", 100)} {
			if back.VerifyArgon2id(try) != (try == pw) {
				c.Violation("C20/phc/verify-wrong", fmt.Sprintf("hash of %q verifies %q = %v", pw, try, try != pw), nil)
			}
		}
	}
	c.Res.Bounds["salt_lengths"] = "0..40 bytes"
	c.Sample(map[string]any{"input": "$argon2id$v=19$m=8,t=1,p=1,l=32$" + b64(24) + "$" + b64(32), "note": "24-byte salt"})
}

func panicClass(s string) string {
	switch {
	case strings.Contains(s, "index out of range"):
		return "index-out-of-range"
	case strings.Contains(s, "slice bounds"):
		return "slice-bounds"
	}
	return "other"
}
