#!/bin/sh
# Detection demonstration: applies every patch under mutants/ (and seeded/*/patch.diff) to a scratch
# worktree of /repo (never to /repo itself) and expects the listed checks to exit 1 with a VIOLATION.
# Usage: ./selftest.sh [pattern]   Results: selftest-results.txt
cd "$(dirname "$0")"
# SHARD=i/n runs every n-th item (several shards side by side; results in /var/tmp/selftest-results-<i>.txt)
if [ -n "${SHARD:-}" ]; then SHARD_I=${SHARD%%/*}; SHARD_N=${SHARD##*/}; WT=/var/tmp/vf-selftest-wt-$SHARD_I; OUT=/var/tmp/selftest-results-$SHARD_I.txt; LIST=/var/tmp/vf-selftest-list-$SHARD_I.txt; TMPOUT=/var/tmp/vf-selftest-out-$SHARD_I.txt
else WT=/var/tmp/vf-selftest-wt; OUT=selftest-results.txt; LIST=/var/tmp/vf-selftest-list.txt; TMPOUT=/var/tmp/vf-selftest-out.txt; SHARD_I=0; SHARD_N=1; fi
: > $OUT
python3 - "$1" <<'PY' | awk -v i=$SHARD_I -v n=$SHARD_N 'NR % n == i' > $LIST
import json,sys,glob,os
pat=sys.argv[1] if len(sys.argv)>1 else ''
idx=json.load(open('mutants/index.json'))
for p,checks in idx.items():
    if pat in p: print('mutants/'+p, ' '.join(checks))
for m in sorted(glob.glob('seeded/*/meta.json')):
    d=os.path.dirname(m); meta=json.load(open(m))
    if pat in d and not meta.get('superseded'): print(d+'/patch.diff', ' '.join(meta.get('checks',[meta.get('property','')])))
PY
while read patch checks; do
  git -C /repo worktree remove --force $WT 2>/dev/null; rm -rf $WT
  git -C /repo worktree add -q --detach $WT HEAD || exit 2
  if ! git -C $WT apply "$PWD/$patch" 2>/dev/null; then echo "$patch: PATCH-DOES-NOT-APPLY" | tee -a $OUT; continue; fi
  for c in $checks; do
    VERIF_REPO=$WT VF_NO_EVIDENCE=1 ./vf check $c > $TMPOUT 2>&1; rc=$?
    n=$(grep -c '^VIOLATION' $TMPOUT)
    first=$(grep -A1 '^VIOLATION' $TMPOUT | grep 'key:' | head -1 | cut -c1-140)
    echo "$patch $c exit=$rc violations=$n $first" | tee -a $OUT
  done
done < $LIST
git -C /repo worktree remove --force $WT 2>/dev/null; rm -rf $WT
