#!/bin/sh
# Detection demonstration: applies every patch under mutants/ (and seeded/*/patch.diff) to a scratch
# worktree of /repo (never to /repo itself) and expects the listed checks to exit 1 with a VIOLATION.
# Usage: ./selftest.sh [pattern]   Results: selftest-results.txt
cd "$(dirname "$0")"
WT=/var/tmp/vf-selftest-wt
OUT=selftest-results.txt
: > $OUT
python3 - "$1" <<'PY' > /tmp/vf-selftest-list.txt
import json,sys,glob,os
pat=sys.argv[1] if len(sys.argv)>1 else ''
idx=json.load(open('mutants/index.json'))
for p,checks in idx.items():
    if pat in p: print('mutants/'+p, ' '.join(checks))
for m in sorted(glob.glob('seeded/*/meta.json')):
    d=os.path.dirname(m); meta=json.load(open(m))
    if pat in d and not meta.get('superseded'): print(d+'/patch.diff', ' '.join(meta.get('checks',[meta.get('property','')])))
PY
while read patch checks; do
  git -C /repo worktree remove --force $WT 2>/dev/null; rm -rf $WT
  git -C /repo worktree add -q --detach $WT HEAD || exit 2
  if ! git -C $WT apply "$PWD/$patch" 2>/dev/null; then echo "$patch: PATCH-DOES-NOT-APPLY" | tee -a $OUT; continue; fi
  for c in $checks; do
    VERIF_REPO=$WT VF_NO_EVIDENCE=1 ./vf check $c > /tmp/vf-selftest-out.txt 2>&1; rc=$?
    n=$(grep -c '^VIOLATION' /tmp/vf-selftest-out.txt)
    first=$(grep -A1 '^VIOLATION' /tmp/vf-selftest-out.txt | grep 'key:' | head -1 | cut -c1-140)
    echo "$patch $c exit=$rc violations=$n $first" | tee -a $OUT
  done
done < /tmp/vf-selftest-list.txt
git -C /repo worktree remove --force $WT 2>/dev/null; rm -rf $WT
