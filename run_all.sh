#!/bin/sh
# Runs every registered check at the given tier (default quick) and validates the evidence files.
cd "$(dirname "$0")"
TIER=${1:-quick}
for c in $(./vf list | awk '{print $1}'); do
  s=$(date +%s)
  ./vf check $c --tier $TIER > /tmp/vf-all-$c.out 2>&1; rc=$?
  e=$(date +%s)
  echo "$c exit=$rc $((e-s))s $(grep -E 'tier=' /tmp/vf-all-$c.out | cut -c1-170)"
  grep -E '^(VIOLATION|KNOWN-FINDING|MACHINERY)' /tmp/vf-all-$c.out | cut -c1-160
done
python3-vt - <<'PY'
import json,jsonschema,glob
sch=json.load(open('/root/.vp/EVIDENCE.schema.json'))
bad=0
for f in sorted(glob.glob('evidence/*.json')):
    try: jsonschema.validate(json.load(open(f)),sch)
    except Exception as ex: bad+=1; print('INVALID',f,str(ex)[:200])
print('evidence files valid' if not bad else 'EVIDENCE PROBLEMS')
jsonschema.validate(json.load(open('MANIFEST.json')), json.load(open('/root/.vp/MANIFEST.schema.json'))); print('manifest valid')
PY
